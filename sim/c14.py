"""C14 - Network contents stay consistent under any history of edits.

pysim: seeded edit histories on 1-3 live networks of different configurations,
interleaved by a seeded scheduler with each other and with foreign writers of
the process-global parser tables, with I/O faults on add-from-file.  After every
event every live network is compared with a recompute-from-scratch reference
model (sim/model.py) over the simulator's own species identities.
"""
from __future__ import annotations

import json
import os
import shutil
from collections import Counter
import sys
import traceback

from . import kernel as K
from . import model as M
from . import seams
from . import world as W

PROP = "C14"

OP_KINDS = ["add_inst", "add_str", "add_file", "rm_idx", "rm_idxs", "rm_inst", "rm_insts", "set_allowed",
            "set_required", "dedup", "reindex"]
FOREIGN_KINDS = ["f_set_elements", "f_add_elements", "f_reset", "f_set_pseudo", "f_species", "f_add_pseudo"]
FOREIGN_LISTS = [["X", "Y", "Z"], ["E", "H", "HE", "C", "N", "O", "S", "SI"], ["e", "H", "He", "Co", "Ca", "Cl", "O"],
                 ["H"], ["h", "c", "o"]]


class Violation(Exception):
    def __init__(self, clause, detail):
        super().__init__(f"{clause}: {detail}")
        self.clause = clause
        self.detail = detail


# --------------------------------------------------------------------------
# the simulated world for one run
# --------------------------------------------------------------------------
class Sim:
    def __init__(self, world, rundir):
        self.N = seams.install()
        seams.reset_globals()
        self.world = world
        self.rundir = rundir
        os.makedirs(rundir, exist_ok=True)
        self.nets = {}      # index -> naunet Network
        self.models = {}    # index -> ModelNetwork
        self.bound = {}     # index -> {id(obj): uid}
        self.inst = {}      # index -> {uid: Reaction instance we constructed}
        self.how = {}       # index -> {uid: ("inst", altice) | ("str", fmt)}
        self.alive = []     # keep every observed object alive (ids stay unique)
        self.shared_lists = {}  # net index -> (uids, the list object of Reaction instances it was built from)
        self.idmaps = {i: W.identity_map(n["cfg"]) for i, n in enumerate(world["nets"])}
        self.pools = {i: {ar["uid"]: ar for ar in n["pool"]} for i, n in enumerate(world["nets"])}
        self.log = K.EventLog()
        self.step = 0
        self.nfile = 0
        self.stats = {"ops": {}, "faults": {}, "exceptions": {}}

    # -- helpers ---------------------------------------------------------------
    def cfg(self, n):
        return W.CONFIGS[self.world["nets"][n]["cfg"]]

    def cfgname(self, n):
        return self.world["nets"][n]["cfg"]

    def install_lists(self, n):
        """What a careful user does before constructing bare Species/Reaction
        objects for network n (naunet's bare constructors are ambient by design)."""
        c = self.cfg(n)
        if c["explicit"]:
            self.N.Species.set_known_elements(list(c["elements"]))
            self.N.Species.set_known_pseudoelements(list(c["pseudo"]))

    def make_species(self, n, key, altice=False):
        c = self.cfg(n)
        name = c["spell"][key]
        kw = dict(c["kwargs"])
        if altice and W.is_ice(key):
            # the other surface-prefix convention, an equal species by naunet's documented rules
            if kw.get("surface_prefix", "#") == "#":
                name, kw = "G" + name[1:], {"surface_prefix": "G"}
            else:
                name, kw = "#" + name[1:], {}
        return self.N.Species(name, **kw)

    def make_reaction(self, n, ar, altice=False):
        c = self.cfg(n)
        self.install_lists(n)
        R = [self.make_species(n, k, altice) for k in ar["R"]]
        if ar["pseudo"]:
            R.append(c["pseudo_names"][ar["pseudo"]])
        P = [self.make_species(n, k, altice) for k in ar["P"]]
        return self.N.Reaction(R, P, temp_min=ar["tmin"], temp_max=ar["tmax"], alpha=ar["alpha"], beta=ar["beta"],
                               gamma=ar["gamma"], reaction_type=self.N.ReactionType(ar["rtype"]), idxfromfile=-1)

    def content_of(self, n, r):
        idm = self.idmaps[n]
        try:
            # the order of the species inside a reaction is not part of the property
            R = tuple(sorted(idm[s.name] for s in r.reactants))
            P = tuple(sorted(idm[s.name] for s in r.products))
        except KeyError as e:
            raise Violation("unknown-species-spelling", f"net {n}: reaction {r!r} mentions a species spelled {e} "
                                                        "that this network's configuration never uses")
        if getattr(r, "format", "") == "krome" and getattr(r, "rate_string", None) is not None:
            tag = ("rate", r.rate_string)
        else:
            tag = ("alpha", float(r.alpha))
        return (R, P, float(r.temp_min), float(r.temp_max), int(r.reaction_type), tag)

    def observe(self, n):
        """uids of net.reaction_list in order; binds objects seen for the first time."""
        net, mod, bound = self.nets[n], self.models[n], self.bound[n]
        out = []
        taken = set(bound.values())
        for r in net.reaction_list:
            uid = bound.get(id(r))
            if uid is None:
                c = self.content_of(n, r)
                match = [e["uid"] for e in mod.cands if e["content"] == c and e["uid"] not in taken]
                if not match:
                    raise Violation("unknown-reaction", f"net {n} holds {r!r}, which corresponds to no reaction that "
                                                        "was added and not removed")
                uid = match[0]
                bound[id(r)] = uid
                taken.add(uid)
                self.alive.append(r)
            out.append(uid)
        return out

    # -- invariants --------------------------------------------------------------
    def check_net(self, n, order_strict=True):
        net, mod = self.nets[n], self.models[n]
        idm = self.idmaps[n]
        obs = self.observe(n)
        if len(set(obs)) != len(obs):
            raise Violation("duplicate-object", f"net {n}: one added reaction is held twice: {obs}")
        if sorted(obs) != mod.held_expected_set():
            exp = mod.held_expected_set()
            lost = sorted(set(exp) - set(obs))
            extra = sorted(set(obs) - set(exp))
            raise Violation("held-set-mismatch", f"net {n}: lost={lost} kept-contrary-to-edits={extra}")
        if order_strict:
            if obs != mod.order:
                raise Violation("order-mismatch", f"net {n}: held order {obs} != model {mod.order}")
        else:
            mod.order = list(obs)
        # contents of held reactions unchanged
        for r, uid in zip(net.reaction_list, obs):
            if self.content_of(n, r) != mod.entry(uid)["content"]:
                raise Violation("content-changed", f"net {n}: reaction uid {uid} now reads {r!r}")
        # species
        names = [s.name for s in net.species]
        try:
            ids = [idm[x] for x in names]
        except KeyError as e:
            raise Violation("unknown-species-spelling", f"net {n}: species list contains {e}")
        if len(set(ids)) != len(ids):
            raise Violation("species-repeated", f"net {n}: species list repeats a species: {names}")
        if set(ids) != mod.species():
            raise Violation("species-mismatch", f"net {n}: extra={sorted(set(ids) - mod.species())} "
                                                f"missing={sorted(mod.species() - set(ids))}")
        rs = {idm[s.name] for s in net.reactants}
        ps = {idm[s.name] for s in net.products}
        if rs != mod.reactants() or ps != mod.products():
            raise Violation("reactant-product-sets-mismatch",
                            f"net {n}: reactants extra={sorted(rs - mod.reactants())} missing={sorted(mod.reactants() - rs)}; "
                            f"products extra={sorted(ps - mod.products())} missing={sorted(mod.products() - ps)}")
        src, snk = net.find_source_sink()
        src, snk = {idm[s.name] for s in src}, {idm[s.name] for s in snk}
        msrc, msnk = mod.source_sink()
        if src != msrc or snk != msnk:
            raise Violation("source-sink-mismatch", f"net {n}: sources {sorted(src)} vs {sorted(msrc)}; "
                                                    f"sinks {sorted(snk)} vs {sorted(msnk)}")
        # where_species: three deterministic probes per step
        alpha = self.world["nets"][n]["alphabet"]
        for j in range(3):
            key = alpha[(self.step * 3 + j) % len(alpha)]
            mode = ("all", "reactant", "product")[(self.step + j) % 3]
            c = self.cfg(n)
            name = c["spell"][key]
            alts = c["alt"].get(key, [])
            if alts and (self.step + j) % 2:
                name = alts[(self.step + j) % len(alts)]  # an equivalent spelling of the same species
            arg = name
            if (self.step + j) % 5 == 0:
                # a Species object instead of a name; for ices in the other surface-prefix convention
                self.install_lists(n)
                arg = self.make_species(n, key, altice=W.is_ice(key))
                self.alive.append(arg)
            got = net.where_species(arg, mode)
            exp = mod.where(key, mode)
            if got != exp:
                raise Violation("where-species-mismatch", f"net {n}: where_species({arg!r}, {mode!r}) = {got}, model {exp}")
        # where_reaction / membership for one held reaction per step (documented equality)
        if mod.order:
            k = self.step % len(mod.order)
            target = net.reaction_list[k]
            tc = mod.entry(mod.order[k])["content"]
            exp = [i for i, e in enumerate(mod.held()) if M.documented_equal(e["content"], tc)]
            got = net.where_reaction(target)
            if got != exp:
                raise Violation("where-reaction-mismatch", f"net {n}: where_reaction(held #{k}) = {got}, model {exp}")
            if target not in net:
                raise Violation("where-reaction-mismatch", f"net {n}: held reaction #{k} is reported as not in the network")

    def check_all(self, touched=None, relaxed=False):
        for n in sorted(self.nets):
            self.check_net(n, order_strict=not (relaxed and n == touched))

    # -- operations ----------------------------------------------------------------
    def _kw(self, n):
        c = self.cfg(n)
        kw = {}
        if c["explicit"]:
            kw["elements"] = list(c["elements"])
            kw["pseudo_elements"] = list(c["pseudo"])
        if c["kwargs"]:
            kw["species_kwargs"] = dict(c["kwargs"])
        return kw

    def _names(self, n, keys):
        return [self.cfg(n)["spell"][k] for k in keys]

    def fresh_network(self, n, allowed_keys):
        """Invariant 6: a network constructed with the list, fed the same candidates the same way."""
        kw = self._kw(n)
        if allowed_keys:
            kw["allowed_species"] = self._names(n, allowed_keys)
        fresh = self.N.Network(**kw)
        for e in self.models[n].cands:
            uid = e["uid"]
            how = self.how[n][uid]
            if how[0] == "inst":
                fresh.add_reaction(self.inst[n][uid])
            else:
                line = W.encode(self.cfgname(n), self.pools[n][uid], how[1], uid)
                fresh.add_reaction((line + "\n", how[1]))
        return fresh

    def apply(self, op):
        """Execute one event against naunet and the model, then check every live network."""
        self.step += 1
        kind = op["op"]
        self.ops_done = getattr(self, "ops_done", [])
        self.stats["ops"][kind] = self.stats["ops"].get(kind, 0) + 1
        n = op.get("net")
        outcome = "ok"
        relaxed = False
        try:
            with seams.quiet():
                outcome, relaxed = self._apply(op, kind, n)
        except (Violation, K.HarnessError):
            raise
        except Exception as e:
            if K.raised_in_harness(e):
                raise K.HarnessError(f"simulator code failed in {kind}: {type(e).__name__}: {e}\n{traceback.format_exc()}")
            self.stats["exceptions"][type(e).__name__] = self.stats["exceptions"].get(type(e).__name__, 0) + 1
            tb = "".join(traceback.format_exc().splitlines(True)[-4:])
            raise Violation("op-raised", f"{kind} on net {n} raised {type(e).__name__}: {e}\n{tb}")
        self.log.add(self.step, kind, n, outcome)
        self.ops_done.append(op)
        try:
            with seams.quiet():
                self.check_all(touched=n, relaxed=relaxed)
        except (Violation, K.HarnessError):
            raise
        except Exception as e:
            if K.raised_in_harness(e):
                raise K.HarnessError(f"simulator code failed while checking after {kind}: {type(e).__name__}: {e}\n{traceback.format_exc()}")
            tb = "".join(traceback.format_exc().splitlines(True)[-4:])
            raise Violation("observation-raised", f"after {kind} (net {n}): reading a live network raised "
                                                  f"{type(e).__name__}: {e}\n{tb}")

    def _expect_unchanged(self, n, what):
        obs = self.observe(n)
        if obs != self.models[n].order:
            raise Violation("state-changed-by-failed-op", f"net {n}: {what} failed but the held reactions changed")

    def _apply(self, op, kind, n):
        N = self.N
        if kind == "new":
            spec = self.world["nets"][n]
            kw = self._kw(n)
            if spec["allowed"]:
                kw["allowed_species"] = self._names(n, spec["allowed"])
            if spec["required"]:
                kw["required_species"] = self._names(n, spec["required"])
            self.models[n] = M.ModelNetwork(spec["allowed"], spec["required"])
            self.bound[n], self.inst[n], self.how[n] = {}, {}, {}
            mod = self.models[n]
            init = op.get("init")
            if init and init["how"] == "reactions":
                # Network(reactions=[...]): the constructor adds them one by one
                src = self.shared_lists.get(init.get("shared_with"))
                if src is not None and list(src[0]) == list(init["uids"]):
                    objs = src[1]  # the SAME list object (and Reaction objects) another network was built from
                    for u, r in zip(init["uids"], objs):
                        self.inst[n][u] = r
                        self.how[n][u] = ("inst", False)
                        self.bound[n][id(r)] = u
                        mod.add(u, W.expected_content(self.pools[n][u], "naunet"))
                else:
                    objs = []
                    for u in init["uids"]:
                        ar = self.pools[n][u]
                        r = self.make_reaction(n, ar)
                        self.alive.append(r)
                        self.inst[n][u] = r
                        self.how[n][u] = ("inst", False)
                        self.bound[n][id(r)] = u
                        objs.append(r)
                        mod.add(u, W.expected_content(ar, "naunet"))
                    if init.get("share"):
                        self.shared_lists[n] = (list(init["uids"]), objs)
                kw["reactions"] = objs
            elif init and init["how"] == "files":
                paths, fmts = [], []
                for uids, fmt in init["files"]:
                    self.nfile += 1
                    path = os.path.join(self.rundir, f"net{n}_init{self.nfile}.{fmt}")
                    with open(path, "w") as f:
                        f.write("".join(W.encode(self.cfgname(n), self.pools[n][u], fmt, u) + "\n" for u in uids))
                    paths.append(path)
                    fmts.append(fmt)
                    for u in uids:
                        self.how[n][u] = ("str", fmt)
                        mod.add(u, W.expected_content(self.pools[n][u], fmt))
                kw["filelist"] = paths if len(paths) > 1 or init.get("aslist") else paths[0]
                kw["fileformats"] = fmts if init.get("fmtlist") or len(set(fmts)) > 1 else fmts[0]
            self.nets[n] = N.Network(**kw)
            return "ok", False
        if n is not None and n not in self.nets:
            return "skipped-no-net", False
        net = self.nets.get(n)
        mod = self.models.get(n)
        if kind == "add_inst":
            ar = self.pools[n][op["uid"]]
            if op["uid"] in self.how[n]:
                return "skipped-already-added", False
            r = self.make_reaction(n, ar, op.get("altice", False))
            self.alive.append(r)
            self.inst[n][ar["uid"]] = r
            self.how[n][ar["uid"]] = ("inst", op.get("altice", False))
            self.bound[n][id(r)] = ar["uid"]
            net.add_reaction(r)
            mod.add(ar["uid"], W.expected_content(ar, "naunet"))
            return "ok", False
        if kind == "add_str":
            ar = self.pools[n][op["uid"]]
            if op["uid"] in self.how[n]:
                return "skipped-already-added", False
            line = W.encode(self.cfgname(n), ar, op["fmt"], ar["uid"])
            self.how[n][ar["uid"]] = ("str", op["fmt"])
            net.add_reaction((line + "\n", op["fmt"]))
            mod.add(ar["uid"], W.expected_content(ar, op["fmt"]))
            return "ok", False
        if kind == "add_file":
            uids = [u for u in op["uids"] if u not in self.how[n]]
            fmt = op["fmt"]
            lines = [W.encode(self.cfgname(n), self.pools[n][u], fmt, u) for u in uids]
            fault = op.get("fault")
            bad_at = None
            if isinstance(fault, dict):
                bad_at = min(fault["bad_line_at"], len(lines))
                lines.insert(bad_at, "this is not a reaction")
            if fmt == "krome" and op.get("kfmt"):
                # a KROME file that declares its own column order (seeded change c14am: the declaration must
                # not outlive the file, also when the file is abandoned at a malformed line)
                def _re(ln):
                    f = ln.split(",", 10)
                    return ln if len(f) != 11 else ",".join([f[0], f[8], f[9]] + f[1:8] + [f[10]])
                lines = ["@format:idx,tmin,tmax,r,r,r,p,p,p,p,rate"] + [_re(ln) for ln in lines]
            self.nfile += 1
            path = os.path.join(self.rundir, f"net{n}_{self.nfile}.{fmt}")
            with open(path, "w") as f:
                f.write("".join(ln + "\n" for ln in lines))
            if fault in ("open-fail", "read-fail"):
                seams.PLAN.arm(kind=fault, match=os.path.basename(path), mode="r")
            try:
                net.add_reaction_from_file(path, fmt)
            except OSError as e:
                if fault not in ("open-fail", "read-fail"):
                    raise
                self.stats["faults"][fault] = self.stats["faults"].get(fault, 0) + 1
                self._expect_unchanged(n, f"add_reaction_from_file ({fault})")
                return f"fault:{fault}", False
            except Exception as e:
                if bad_at is None:
                    raise
                self.stats["faults"]["parse-abort"] = self.stats["faults"].get("parse-abort", 0) + 1
                # either the lines before the malformed one were taken, or none was
                before = list(mod.order)
                saved = (list(mod.cands), list(mod.order))
                for u in uids[:bad_at]:
                    self.how[n][u] = ("str", fmt)
                    mod.add(u, W.expected_content(self.pools[n][u], fmt))
                obs = self.observe_tolerant(n)
                if obs == mod.order:
                    return "fault:parse-abort:prefix", False
                for u in uids[:bad_at]:
                    del self.how[n][u]
                mod.cands, mod.order = saved
                if obs == before:
                    return "fault:parse-abort:none", False
                raise Violation("parse-abort-partial-state", f"net {n}: after a malformed line at position {bad_at} the "
                                                             f"network holds {obs}, neither the reactions before it nor none")
            if fault in ("open-fail", "read-fail"):
                raise K.HarnessError("armed open fault did not fire")
            if bad_at is not None:
                raise Violation("malformed-line-accepted", f"net {n}: a malformed line was silently accepted")
            for u in uids:
                self.how[n][u] = ("str", fmt)
                mod.add(u, W.expected_content(self.pools[n][u], fmt))
            return "ok", False
        if kind == "rm_idx":
            i = op["i"]
            ok = -len(mod.order) <= i < len(mod.order)
            try:
                net.remove_reaction(i)
            except IndexError:
                if ok:
                    raise
                self._expect_unchanged(n, "remove_reaction(out-of-range index)")
                return "index-error", False
            mod.remove_index(i)
            return "ok", False
        if kind == "rm_idxs":
            net.remove_reaction(list(op["idxs"]))
            mod.remove_indices(op["idxs"])
            return "ok", False
        if kind in ("rm_inst", "rm_insts"):
            uids = [op["uid"]] if kind == "rm_inst" else list(op["uids"])
            objs, contents = [], []
            for u in uids:
                ar = self.pools[n][u]
                if op.get("same_object") and u in self.inst[n]:
                    r = self.inst[n][u]
                else:
                    r = self.make_reaction(n, ar)
                    self.alive.append(r)
                objs.append(r)
                contents.append(W.expected_content(ar, "naunet"))
            net.remove_reaction(objs[0] if kind == "rm_inst" else objs)
            mod.remove_equal(contents)
            return "ok", False
        if kind == "set_allowed":
            net.allowed_species = self._names(n, op["keys"])
            mod.set_allowed(op["keys"])
            # same reactions and species as constructing the network with that list
            self.check_net(n, order_strict=False)
            fresh = self.fresh_network(n, op["keys"])
            a = sorted(repr(self.content_of(n, r)) for r in fresh.reaction_list)
            b = sorted(repr(self.content_of(n, r)) for r in net.reaction_list)
            if a != b:
                raise Violation("allowed-setter-differs-from-constructor", f"net {n}: setter holds {len(b)} reactions, "
                                                                           f"a network constructed with the list holds {len(a)}")
            idm = self.idmaps[n]
            fs = {idm[s.name] for s in fresh.species}
            ns = {idm[s.name] for s in net.species} - set(mod.required)
            if fs - set(mod.required) != ns:
                raise Violation("allowed-setter-differs-from-constructor", f"net {n}: species differ: constructed "
                                                                           f"{sorted(fs)} vs setter {sorted(ns)}")
            return "ok", True
        if kind == "set_required":
            net.required_species = self._names(n, op["keys"])
            mod.set_required(op["keys"])
            return "ok", False
        if kind == "dedup":
            dupes, dupidx, first = net.find_duplicate_reaction(op["mode"])
            # De-duplication must remove exactly the later copies: nothing else may be lost, no copy
            # kept.  Judged where "copy" is unambiguous: mode "brief" (same reactant and product
            # multisets) and the default mode when no held reaction has an unknown type (the
            # documented equality is then an equivalence relation).  The string modes compare
            # spellings and type names, which is C15's business; there the report is applied as is.
            contents = [e["content"] for e in mod.held()]
            eq = None
            if op["mode"] == "brief":
                def eq(a, b):
                    return Counter(a[0]) == Counter(b[0]) and Counter(a[1]) == Counter(b[1])
            elif op["mode"] is None and not any(c[4] == M.RT_UNKNOWN for c in contents):
                eq = M.documented_equal
            if eq is not None:
                expected = [i for i in range(len(contents)) if any(eq(contents[j], contents[i]) for j in range(i))]
                if sorted(dupidx) != expected:
                    raise Violation("dedup-removes-wrong-reactions",
                                    f"net {n}: de-duplication (mode {op['mode']!r}) reports {sorted(dupidx)} but the later copies are {expected}")
            net.remove_reaction(list(dupidx))
            mod.remove_indices(list(dupidx))
            return f"ok:{len(dupidx)}", False
        if kind == "repickle":
            # a session continued from a file: ANOTHER interpreter (another string-hash salt) builds the
            # same network by the same history, pickles it, and this process goes on with the loaded
            # object.  Nothing about a network may depend on the process that built it.  (Whether
            # pickling works at all is not C14's business: the op is skipped if it does not.)
            import pickle
            import subprocess
            import sys as _sys

            job = json.dumps({"world": self.world, "ops": [o for o in self.ops_done if o["op"] != "repickle"], "net": n,
                              "rundir": self.rundir + "-pk"})
            code = "import sys;sys.path.insert(0,%r);from sim import c14;c14._repickle_child()" % K.VERIF
            try:
                pr = subprocess.run([_sys.executable, "-c", code], input=job.encode(), capture_output=True, timeout=300,
                                    env=dict(os.environ, PYTHONHASHSEED=str(op["hashseed"]), NAUNET_REPO=K.REPO))
                if pr.returncode != 0 or not pr.stdout:
                    return "skipped", False
                restored = pickle.loads(pr.stdout)
            except (pickle.PickleError, AttributeError, TypeError, EOFError, subprocess.TimeoutExpired):
                return "skipped", False
            objs = list(restored.reaction_list) + list(getattr(restored, "_skipped_reactions", []))
            byalpha = {float(r.alpha): r for r in objs}
            self.inst[n] = {u: byalpha[u + 0.5] for u in self.inst[n] if (u + 0.5) in byalpha}
            self.bound[n] = {}
            self.alive.append(net)
            self.nets[n] = restored
            return "ok", False
        if kind == "reindex":
            net.reindex()
            got = [r.idxfromfile for r in net.reaction_list]
            if got != list(range(len(got))):
                raise Violation("reindex", f"net {n}: indices after reindex are {got}")
            return "ok", False
        # ---- foreign writers of the global tables (public API only) ----
        if kind == "f_set_elements":
            N.Species.set_known_elements(list(op["elements"]))
            return "ok", False
        if kind == "f_add_elements":
            N.Species.add_known_elements(list(op["elements"]))
            return "ok", False
        if kind == "f_set_pseudo":
            N.Species.set_known_pseudoelements(list(op["elements"]))
            return "ok", False
        if kind == "f_add_pseudo":
            # moves names that are elements into the pseudo-element list (H2 + CR -> ... drops CR; now maybe H too)
            N.Species.add_known_pseudoelements(list(op["elements"]))
            return "ok", False
        if kind == "f_reset":
            N.Species.reset()
            return "ok", False
        if kind == "f_species":
            N.Species.set_known_elements(list(op["elements"]))
            try:
                N.Species(op["name"])
            except RuntimeError:
                return "foreign-parse-error", False
            return "ok", False
        raise K.HarnessError(f"unknown op {kind}")

    def observe_tolerant(self, n):
        return self.observe(n)


# --------------------------------------------------------------------------
# generation: world + lazily generated ops (recorded explicitly)
# --------------------------------------------------------------------------
def gen_world(rng, tier):
    r = rng.random()
    if r < 0.12:
        cfgs = ["ambient"]
    else:
        k = rng.choices([1, 2, 3], weights=[4, 4, 2])[0]
        cfgs = [rng.choice(["mixed", "upper", "gprefix", "minimal", "orthopara"]) for _ in range(k)]
    nets = []
    uid0 = 0
    for c in cfgs:
        cfg = W.CONFIGS[c]
        full = [s for s in cfg["alphabet"] if s in cfg["spell"]]
        size = rng.randint(8, min(14, len(full)))
        alphabet = sorted(rng.sample(full, size), key=full.index)
        if not any(not W.is_ice(s) and not W.is_grain(s) for s in alphabet):
            alphabet.append("H")
        pool = gen_pool_sub(rng, c, alphabet, rng.randint(10, 40), uid0)
        uid0 += len(pool) + 100
        allowed = None
        required = []
        if rng.random() < 0.4:
            allowed = sorted(rng.sample(alphabet, max(2, int(len(alphabet) * rng.uniform(0.4, 0.95)))), key=alphabet.index)
        if rng.random() < 0.4:
            src = allowed if allowed else alphabet
            required = rng.sample(src, min(len(src), rng.randint(1, 2)))
        nets.append({"cfg": c, "alphabet": alphabet, "pool": pool, "allowed": allowed, "required": required})
    if len(nets) >= 2 and nets[0]["cfg"] != "ambient" and rng.random() < 0.25:
        # a sibling: the same reactions (the very same Reaction objects and, when constructed with
        # reactions=[...], the very same Python list) handed to two networks - `rl = [...];
        # a = Network(rl); b = Network(rl)` - which must stay independent of each other
        import copy

        sib = copy.deepcopy(nets[0])
        sib["sibling_of"] = 0
        sib["allowed"] = None
        nets[1] = sib
        nets[0]["allowed"] = None
        nets[0]["has_sibling"] = 1
    foreign = cfgs != ["ambient"] and rng.random() < 0.6
    weights = {k: rng.choice([0, 1, 1, 2, 4, 8]) for k in OP_KINDS}
    weights["add_inst"] = max(weights["add_inst"], 2)
    weights["add_str"] = max(weights["add_str"], 1)
    faults = rng.random() < 0.5
    if tier == "thorough" and rng.random() < 0.05:
        length = rng.randint(100, 400)
    else:
        length = min(60, int(5 + rng.expovariate(1 / 14.0)))
    return {"nets": nets, "foreign": foreign, "weights": weights, "faults": faults, "length": length,
            "burst": rng.choice([0.0, 0.5, 0.85]), "repickle": rng.random() < 0.06}


def gen_pool_sub(rng, cfgname, alphabet, size, uid0):
    cfg = W.CONFIGS[cfgname]
    saved = cfg["alphabet"]
    cfg["alphabet"] = alphabet
    try:
        return W.gen_pool(rng, cfgname, size, uid0)
    finally:
        cfg["alphabet"] = saved


def gen_op(rng, world, sim, n):
    """Next op of session n given the current model state."""
    if n == "foreign":
        kind = rng.choice(FOREIGN_KINDS)
        if kind == "f_reset":
            return {"op": kind}
        if kind == "f_species":
            return {"op": kind, "elements": rng.choice(FOREIGN_LISTS), "name": rng.choice(["HE", "Co", "X2Y", "SIO", "h2o"])}
        return {"op": kind, "elements": rng.choice(FOREIGN_LISTS)}
    if n not in sim.nets:
        spec = world["nets"][n]
        r = rng.random()
        if ("sibling_of" in spec or spec.get("has_sibling") is not None) and r < 0.8:
            other = spec.get("sibling_of", spec.get("has_sibling"))
            if other in sim.shared_lists:
                return {"op": "new", "net": n, "init": {"how": "reactions", "shared_with": other, "uids": list(sim.shared_lists[other][0])}}
            k = rng.randint(2, min(8, len(spec["pool"])))
            return {"op": "new", "net": n, "init": {"how": "reactions", "share": True,
                                                   "uids": [ar["uid"] for ar in rng.sample(spec["pool"], k)]}}
        if r < 0.25:
            k = rng.randint(1, min(8, len(spec["pool"])))
            return {"op": "new", "net": n, "init": {"how": "reactions", "uids": [ar["uid"] for ar in rng.sample(spec["pool"], k)]}}
        if r < 0.45:
            files, used = [], set()
            for _ in range(rng.randint(1, 2)):
                fmt = rng.choice(["naunet", "kida", "umist", "krome", "uclchem"])
                ok = [ar for ar in spec["pool"] if ar["uid"] not in used and fmt in W.formats_for(spec["cfg"], ar)]
                if not ok:
                    continue
                chosen = rng.sample(ok, min(len(ok), rng.randint(1, 6)))
                used.update(ar["uid"] for ar in chosen)
                files.append([[ar["uid"] for ar in chosen], fmt])
            if files:
                return {"op": "new", "net": n, "init": {"how": "files", "files": files, "aslist": rng.random() < 0.5,
                                                       "fmtlist": rng.random() < 0.5}}
        return {"op": "new", "net": n}
    spec = world["nets"][n]
    mod = sim.models[n]
    cfgname = spec["cfg"]
    if world.get("repickle") and rng.random() < 0.05 and not any("sibling_of" in x or x.get("has_sibling") is not None for x in world["nets"]):
        return {"op": "repickle", "net": n, "hashseed": rng.randrange(1, 1000000)}
    unused = [ar for ar in spec["pool"] if ar["uid"] not in sim.how[n]]
    w = dict(world["weights"])
    if not unused:
        w["add_inst"] = w["add_str"] = w["add_file"] = 0
    if not mod.order:
        for k in ("rm_idx", "rm_idxs", "dedup"):
            w[k] = min(w[k], 1)
    kinds = [k for k in OP_KINDS if w[k] > 0] or ["reindex"]
    kind = rng.choices(kinds, weights=[w[k] for k in kinds])[0]
    nheld = len(mod.order)
    if kind == "add_inst":
        ar = rng.choice(unused)
        mixed_side = any(W.is_ice(x) for x in ar["R"] + ar["P"]) and (len(ar["R"]) > 1 or len(ar["P"]) > 1)
        return {"op": kind, "net": n, "uid": ar["uid"], "altice": rng.random() < (0.5 if mixed_side else 0.15)}
    if kind == "add_str":
        cands = [(ar, W.formats_for(cfgname, ar)) for ar in unused]
        cands = [(ar, f) for ar, f in cands if f]
        if not cands:
            ar = rng.choice(unused)
            return {"op": "add_inst", "net": n, "uid": ar["uid"], "altice": False}
        ar, fmts = rng.choice(cands)
        return {"op": kind, "net": n, "uid": ar["uid"], "fmt": rng.choice(fmts)}
    if kind == "add_file":
        fmt = rng.choice(["naunet", "naunet", "kida", "umist", "krome", "uclchem"])
        ok = [ar for ar in unused if fmt in W.formats_for(cfgname, ar)]
        if not ok:
            fmt = "naunet"
            ok = [ar for ar in unused if fmt in W.formats_for(cfgname, ar)]
        if not ok:
            ar = rng.choice(unused)
            return {"op": "add_inst", "net": n, "uid": ar["uid"], "altice": False}
        k = min(len(ok), rng.randint(1, 8))
        chosen = rng.sample(ok, k)
        fault = None
        if world["faults"] and rng.random() < 0.35:
            fault = rng.choice(["open-fail", "read-fail", {"bad_line_at": rng.randint(0, k)}])
        op = {"op": kind, "net": n, "uids": [ar["uid"] for ar in chosen], "fmt": fmt, "fault": fault}
        if fmt == "krome" and (sum(op["uids"]) + k) % 2 == 0:
            op["kfmt"] = 1  # derived, not drawn: the random stream of the generator stays as it was
        return op
    if kind == "rm_idx":
        if rng.random() < 0.08:
            return {"op": kind, "net": n, "i": nheld + rng.randint(0, 2)}
        if nheld and rng.random() < 0.2:
            return {"op": kind, "net": n, "i": -rng.randint(1, nheld)}
        return {"op": kind, "net": n, "i": rng.randrange(nheld) if nheld else 0}
    if kind == "rm_idxs":
        k = rng.randint(0, min(4, nheld))
        idxs = rng.sample(range(nheld), k) if nheld else []
        if rng.random() < 0.1:
            idxs.append(nheld + 3)
        if idxs and rng.random() < 0.15:
            idxs.insert(rng.randrange(len(idxs) + 1), rng.choice(idxs))  # the same index listed twice
        return {"op": kind, "net": n, "idxs": idxs}
    if kind in ("rm_inst", "rm_insts"):
        # mostly reactions that are (or equal) something held; sometimes absent ones
        held = list(mod.order)
        pick = []
        for _ in range(1 if kind == "rm_inst" else rng.randint(1, 3)):
            if held and rng.random() < 0.8:
                pick.append(rng.choice(held))
            else:
                pick.append(rng.choice(spec["pool"])["uid"])
        if kind == "rm_inst":
            return {"op": kind, "net": n, "uid": pick[0], "same_object": rng.random() < 0.5}
        return {"op": kind, "net": n, "uids": pick, "same_object": rng.random() < 0.5}
    if kind == "set_allowed":
        alpha = spec["alphabet"]
        r = rng.random()
        if r < 0.15:
            keys = []
        elif r < 0.3:
            keys = list(alpha)
        else:
            keys = sorted(rng.sample(alpha, max(1, int(len(alpha) * rng.uniform(0.3, 0.95)))), key=alpha.index)
        return {"op": kind, "net": n, "keys": keys}
    if kind == "set_required":
        alpha = spec["alphabet"]
        return {"op": kind, "net": n, "keys": rng.sample(alpha, rng.randint(0, 3))}
    if kind == "dedup":
        return {"op": kind, "net": n, "mode": rng.choice([None, None, "brief", "minimal", "short"])}
    return {"op": "reindex", "net": n}


def gen_and_run(seed, index, tier, rundir):
    """Generate a run with the seeded scheduler, executing as it goes (ops depend
    on state).  Returns (world, ops, sim, violation or None)."""
    rng = K.rng_for(seed, PROP, index)
    world = gen_world(rng, tier)
    sim = Sim(world, rundir)
    sessions = list(range(len(world["nets"]))) + (["foreign"] if world["foreign"] else [])
    ops = []
    last = None
    for _ in range(world["length"]):
        if last is not None and rng.random() < world["burst"]:
            s = last
        else:
            wts = [1 if x == "foreign" else 3 for x in sessions]
            s = rng.choices(sessions, weights=wts)[0]
        last = s
        op = gen_op(rng, world, sim, s)
        ops.append(op)
        try:
            sim.apply(op)
        except Violation as v:
            return world, ops, sim, v
        except K.HarnessError:
            raise
        except Exception as e:
            raise K.HarnessError(f"simulator code failed around {op['op']}: {type(e).__name__}: {e}\n{traceback.format_exc()}")
    return world, ops, sim, None


def run_ops(world, ops, rundir):
    """Replay an explicit op list (no PRNG). Returns (sim, violation or None, index of failing op)."""
    sim = Sim(world, rundir)
    for i, op in enumerate(ops):
        try:
            sim.apply(op)
        except Violation as v:
            return sim, v, i
        except K.HarnessError:
            raise
        except Exception as e:
            raise K.HarnessError(f"simulator code failed around {op['op']}: {type(e).__name__}: {e}\n{traceback.format_exc()}")
    return sim, None, None


def _repickle_child():
    """Entry point of the helper interpreter of the `repickle` op: replay the history, pickle one network."""
    import pickle
    import sys as _sys

    job = json.loads(_sys.stdin.buffer.read().decode())
    sim = Sim(job["world"], job["rundir"])
    for op in job["ops"]:
        try:
            sim.apply(op)
        except Violation:
            pass  # the parent judges; here only the object matters
    out = pickle.dumps(sim.nets[job["net"]])
    _sys.stdout.buffer.write(out)
    _sys.stdout.buffer.flush()
    shutil.rmtree(job["rundir"], ignore_errors=True)


def _run_ops_child(world, ops, rundir):
    sim, v, i = run_ops(world, ops, rundir)
    return (None if v is None else (v.clause, v.detail)), i


def run_ops_isolated(world, ops, rundir):
    """run_ops in a forked child of this pristine post-import process: (violation tuple or None, index)."""
    seams.install()
    return K.forked_call(_run_ops_child, world, ops, rundir)


def _gen_child(seed, index, tier, rundir):
    from . import c14_extend

    if index % 5 == 4:
        res = c14_extend.gen_and_run(seed, index, tier, rundir)
        return {"kind": "extend", "res": res}
    world, ops, sim, v = gen_and_run(seed, index, tier, rundir)
    kinds = [e[1] for e in sim.log.events]
    return {"kind": "edit", "world": world, "ops": ops, "violation": None if v is None else (v.clause, v.detail),
            "events": len(sim.log), "kinds": kinds, "outcomes": [e[3].split(":")[0] for e in sim.log.events],
            "op_stats": sim.stats["ops"], "fault_stats": sim.stats["faults"], "digest": sim.log.digest(),
            "states": [K.hash64(world["nets"][n]["cfg"], m.state_key()) for n, m in sim.models.items()]}


# --------------------------------------------------------------------------
# minimisation / replay
# --------------------------------------------------------------------------
def minimise(world, ops, clause, rundir):
    def still(cand):
        return still_world(world, cand, clause, rundir)

    v, i = run_ops_isolated(world, ops, rundir)
    if v is None or v[0] != clause:
        return None
    ops = ops[: i + 1]
    ops = K.ddmin(ops, still, budget=300)
    # drop networks that no longer take part
    used = sorted({o["net"] for o in ops if o.get("net") is not None})
    if len(used) < len(world["nets"]):
        remap = {old: new for new, old in enumerate(used)}
        w2 = dict(world, nets=[world["nets"][u] for u in used])
        o2 = [dict(o, net=remap[o["net"]]) if o.get("net") is not None else o for o in ops]
        if still_world(w2, o2, clause, rundir):
            world, ops = w2, o2
    # shrink pools to what is referenced
    ref = set()
    for o in ops:
        if "uid" in o:
            ref.add(o["uid"])
        if "uids" in o:
            ref.update(o["uids"])
        init = o.get("init")
        if init:
            ref.update(init.get("uids", []))
            for uids, _fmt in init.get("files", []):
                ref.update(uids)
    w2 = dict(world, nets=[dict(nn, pool=[ar for ar in nn["pool"] if ar["uid"] in ref]) for nn in world["nets"]])
    if still_world(w2, ops, clause, rundir):
        world = w2
    # simplify: no faults, no alt spellings where irrelevant
    for j in range(len(ops)):
        for key, val in (("fault", None), ("altice", False), ("same_object", False)):
            if ops[j].get(key) not in (None, val):
                cand = ops[:j] + [dict(ops[j], **{key: val})] + ops[j + 1:]
                if still_world(world, cand, clause, rundir):
                    ops = cand
    return world, ops


def still_world(world, ops, clause, rundir):
    try:
        v, _ = run_ops_isolated(world, ops, rundir)
    except K.HarnessError:
        return False
    return v is not None and v[0] == clause


def _replay_task(task):
    world, ops, rundir = task
    return run_ops_isolated(world, ops, rundir)


def _replay_extend_task(task):
    from . import c14_extend

    seams.install()
    return K.forked_call(c14_extend.run_case, task[0], task[1])


def replay(path):
    doc = json.load(open(path))
    rundir = os.path.join(K.scratch_root(), "replay")
    if doc.get("kind") == "extend":
        v = K.pool_map(_replay_extend_task, [(doc["case"], rundir)], nworkers=1, force_pool=True)[0]
        print(f"replay {path}: extend case with {len(doc['case']['pool'])} input reactions, options {doc['case']['options']}")
        if v is not None:
            print(f"  -> {v[0]}: {v[1]}")
        i = None
    else:
        v, i = K.pool_map(_replay_task, [(doc["world"], doc["ops"], rundir)], nworkers=1, force_pool=True)[0]
        print(f"replay {path}: {len(doc['ops'])} ops, expected clause {doc['clause']}")
        if v is not None:
            print(f"  op #{i} {doc['ops'][i]} -> {v[0]}: {v[1]}")
    if v is not None and v[0] == doc["clause"]:
        print(f"VIOLATION property={PROP} replay={path}")
        return K.EXIT_VIOLATION
    print("replay did not reproduce the violation on this tree")
    return K.EXIT_OK


def _corpus_task(task):
    """One corpus scenario on the current tree: ("violation", clause, detail) | ("ok",) | ("unusable", why)."""
    path, rundir = task
    try:
        doc = json.load(open(path))
        if doc.get("kind") == "extend":
            v = _replay_extend_task((doc["case"], rundir))
        else:
            v, _i = _replay_task((doc["world"], doc["ops"], rundir))
    except K.HarnessError as e:
        return ("unusable", str(e)[:200])
    except (KeyError, TypeError, ValueError, AssertionError) as e:
        return ("unusable", f"{type(e).__name__}: {e}"[:200])
    if v is not None and v[0] == doc["clause"]:
        return ("violation", v[0], str(v[1]))
    return ("ok",)


# --------------------------------------------------------------------------
# batch
# --------------------------------------------------------------------------
_G = {}


def _worker(task):
    lo, hi = task
    seed, tier = _G["seed"], _G["tier"]
    seams.install()  # this worker stays pristine: every run executes in a forked child
    base = os.path.join(_G["scratch"], f"c14-w{os.getpid()}")
    stats = {"runs": 0, "events": 0, "ops": {}, "faults": {}, "multi_net": 0, "foreign": 0, "lengths": [],
             "ngrams": set(), "states": set(), "outcomes": {}, "cfgs": {}, "extend_runs": 0, "extend": {}}
    viols = []
    digests = []
    samples = []
    for index in range(lo, hi):
        rundir = os.path.join(base, "r")
        shutil.rmtree(rundir, ignore_errors=True)
        r = K.forked_call(_gen_child, seed, index, tier, rundir)
        stats["runs"] += 1
        if r["kind"] == "extend":
            res = r["res"]
            stats["extend_runs"] += 1
            for k, v in res["stats"].items():
                stats["extend"][k] = stats["extend"].get(k, 0) + v
            digests.append(res["digest"])
            stats["states"].add(K.hash64("extend", res["digest"]))
            if res["violation"]:
                viols.append({"index": index, "kind": "extend", "clause": res["violation"][0], "detail": res["violation"][1],
                              "case": res["case"]})
            if not samples and index % 50 == 4:
                samples.append({"extend_case": res["case"]})
            continue
        world, ops = r["world"], r["ops"]
        stats["events"] += r["events"]
        stats["lengths"].append(len(ops))
        stats["multi_net"] += 1 if len(world["nets"]) > 1 else 0
        stats["foreign"] += 1 if world["foreign"] else 0
        for nn in world["nets"]:
            stats["cfgs"][nn["cfg"]] = stats["cfgs"].get(nn["cfg"], 0) + 1
        for k, c in r["op_stats"].items():
            stats["ops"][k] = stats["ops"].get(k, 0) + c
        for k, c in r["fault_stats"].items():
            stats["faults"][k] = stats["faults"].get(k, 0) + c
        kinds = r["kinds"]
        for a in range(len(kinds) - 2):
            stats["ngrams"].add(K.hash64(kinds[a], kinds[a + 1], kinds[a + 2]))
        for o in r["outcomes"]:
            stats["outcomes"][o] = stats["outcomes"].get(o, 0) + 1
        stats["states"].update(r["states"])
        digests.append(r["digest"])
        if r["violation"] is not None:
            viols.append({"index": index, "kind": "edit", "clause": r["violation"][0], "detail": r["violation"][1],
                          "world": world, "ops": ops})
        if len(samples) < 2 and index % 50 == 0:
            samples.append({"nets": [{"cfg": nn["cfg"], "alphabet": nn["alphabet"], "allowed": nn["allowed"],
                                      "required": nn["required"], "pool_size": len(nn["pool"])} for nn in world["nets"]],
                            "history": ops[:40]})
    shutil.rmtree(base, ignore_errors=True)
    stats["ngrams"] = sorted(stats["ngrams"])
    stats["states"] = sorted(stats["states"])
    return {"stats": stats, "viols": viols[:20], "nviol": len(viols), "digest": K.digest(digests), "samples": samples}


def _report_task(task):
    viols, seed, scratch = task
    return report_violations(viols, seed, scratch)


def main(argv):
    tier = K.tier_arg(argv)
    seed = K.base_seed()
    timer = K.Timer()
    scratch = K.scratch_root()
    nruns = {"quick": 10_000, "thorough": 400_000}[tier]
    if os.environ.get("C14_RUNS"):
        nruns = int(os.environ["C14_RUNS"])
    chunk = 100
    tasks = [(i, min(i + chunk, nruns)) for i in range(0, nruns, chunk)]
    _G.update(seed=seed, tier=tier, scratch=scratch)
    budget = {"quick": 150, "thorough": 3000}[tier]
    parts = K.pool_map(_worker, tasks, deadline=timer.t0 + budget)
    done = [p for p in parts if p is not None]
    skipped = len(parts) - len(done)
    tot = {"runs": 0, "events": 0, "ops": {}, "faults": {}, "multi_net": 0, "foreign": 0, "lengths": [],
           "ngrams": set(), "states": set(), "outcomes": {}, "cfgs": {}, "extend_runs": 0, "extend": {}}
    for p in done:
        s = p["stats"]
        for k in ("runs", "events", "multi_net", "foreign", "extend_runs"):
            tot[k] += s[k]
        for k in ("ops", "faults", "outcomes", "cfgs", "extend"):
            for kk, vv in s[k].items():
                tot[k][kk] = tot[k].get(kk, 0) + vv
        tot["lengths"] += s["lengths"]
        tot["ngrams"].update(s["ngrams"])
        tot["states"].update(s["states"])
    viols = [v for p in done for v in p["viols"]]
    nviol = sum(p["nviol"] for p in done)
    batch_digest = K.digest([p["digest"] for p in done])

    exit_code, replays, known_lines, out_lines = K.pool_map(_report_task, [(viols, seed, scratch)], nworkers=1,
                                                             watchdog=3000, force_pool=True)[0]
    for ln in out_lines + known_lines:
        print(ln)
    corpus = K.corpus_files(PROP)
    corpus_out = K.pool_map(_corpus_task, [(f, os.path.join(scratch, f"corpus{n}")) for n, f in enumerate(corpus)],
                            watchdog=600) if corpus else []
    corpus_hits = 0
    for f, res in zip(corpus, corpus_out):
        if res and res[0] == "violation":
            corpus_hits += 1
            print(f"violated clause: {res[1]} (corpus scenario {os.path.basename(f)}): {res[2][:300]}")
            print(f"VIOLATION property={PROP} replay={f}")
            exit_code = K.EXIT_VIOLATION
    corpus_unusable = [os.path.basename(f) for f, res in zip(corpus, corpus_out) if res and res[0] == "unusable"]

    wall = timer.s()
    lengths = sorted(tot["lengths"]) or [0]
    samples = [s for p in done for s in p["samples"]][:3] or [{"note": "no sample"}]
    coverage = {
        "evaluations": tot["runs"],
        "corpus_scenarios_replayed": len(corpus),
        "corpus_scenarios_reproduced": corpus_hits,
        "corpus_scenarios_unusable": corpus_unusable,
        "distinct_nontrivial": len(tot["states"]),
        "rule": "one evaluation = one simulated run (a seeded edit history on 1-3 live networks, or one 'naunet extend' "
                "pipeline); every event is followed by the full invariant check on every live network. "
                "distinct_nontrivial = number of distinct abstract model states (held order, allowed set, required list, "
                "candidate set, per configuration) reached at the end of runs plus distinct extend cases; the empty "
                "network counts once",
        "samples": samples,
        "exhaustive": False,
        "runs_per_hour": int(tot["runs"] / max(wall, 1e-6) * 3600),
        "events_checked": tot["events"],
        "history_length": {"min": lengths[0], "median": lengths[len(lengths) // 2], "max": lengths[-1]},
        "runs_with_more_than_one_network": tot["multi_net"],
        "runs_with_foreign_table_writers": tot["foreign"],
        "networks_per_configuration": tot["cfgs"],
        "op_counts": tot["ops"],
        "op_outcomes": tot["outcomes"],
        "faults_fired": tot["faults"],
        "distinct_op_trigrams": len(tot["ngrams"]),
        "distinct_model_states": len(tot["states"]),
        "extend_runs": tot["extend_runs"],
        "extend_option_counts": tot["extend"],
        "chunks_skipped_for_time": skipped,
        "batch_digest": batch_digest,
        "violations_total_occurrences": nviol,
        "simulated_time": "not applicable: naunet's network editing has no clock; progress is counted in events",
        "components": {
            "real": ["naunet.network.Network (all edit paths)", "Reaction/Species and the kida/umist/krome/naunet format classes",
                     "naunet.console.commands.extend.ExtendCommand via cleo CommandTester"],
            "stub": ["tqdm (identity)", "open() in naunet.network (fault wrapper over real files)", "logging/stdout (sink)"],
        },
    }
    K.write_evidence(PROP, tier, seed, "exploration", coverage, wall, len(replays) + corpus_hits, [
        "species identity is the simulator's own (composition, charge, phase), mapped from spellings, never naunet's __eq__",
        "removal by instance follows the documented equality (same reactant/product multisets, window, type or unknown type) and affects held reactions only",
        "after an allowed-list change the held reactions are compared as a multiset (the property does not fix their order)",
        "a malformed line may leave either the reactions before it or none; both are accepted",
        "networks without explicit element lists are only run alone (the ambient lists are global by design)",
    ])
    print(f"C14 {tier}: {tot['runs']} runs / {tot['events']} events in {wall:.1f}s, {len(tot['states'])} distinct states, "
          f"{len(tot['ngrams'])} op trigrams, faults {tot['faults']}, digest {batch_digest}")
    return exit_code


def report_violations(viols, seed, scratch):
    from . import c14_extend
    known = K.load_known_findings(PROP)
    out = []
    exit_code = K.EXIT_OK
    replays = []
    known_hit = {}
    seen = set()
    rundir = os.path.join(scratch, "c14-min")
    for v in sorted(viols, key=lambda x: x["index"]):
        sig = (v["kind"], v["clause"])
        if sig in seen:
            continue
        if v["kind"] == "extend":
            case = c14_extend.minimise(v["case"], v["clause"], rundir)
            if case is None:
                out.append(f"HARNESS: extend violation {v['clause']} (run {v['index']}) did not reproduce")
                exit_code = K.EXIT_HARNESS if exit_code == K.EXIT_OK else exit_code
                continue
            doc = {"kind": "extend", "seed": seed, "index": v["index"], "clause": v["clause"], "detail": v["detail"], "case": case}
            fid = match_known(known, doc)
        else:
            m = minimise(v["world"], v["ops"], v["clause"], rundir)
            if m is None:
                out.append(f"HARNESS: violation {v['clause']} (run {v['index']}) did not reproduce from its op list")
                exit_code = K.EXIT_HARNESS if exit_code == K.EXIT_OK else exit_code
                continue
            world, ops = m
            vv, _ = run_ops_isolated(world, ops, rundir)
            doc = {"kind": "edit", "seed": seed, "index": v["index"], "clause": v["clause"], "detail": vv[1],
                   "world": world, "ops": ops}
            fid = match_known(known, doc)
        seen.add(sig)
        if fid is not None:
            known_hit.setdefault(fid["id"], [fid, 0])[1] += 1
            continue
        path = K.write_replay(PROP, seed, len(replays), doc)
        replays.append(path)
        out.append(f"violated clause: {v['clause']} (run index {v['index']}): {doc['detail'][:400]}")
        if v["kind"] == "edit":
            out.append(f"  minimised history ({len(doc['ops'])} ops): " + json.dumps(doc["ops"])[:800])
        out.append(f"VIOLATION property={PROP} replay={path}")
        exit_code = K.EXIT_VIOLATION  # a demonstrated violation outranks a harness problem elsewhere
    lines = [f"KNOWN-FINDING: property={PROP} {e['what']} [{fid}; {n} minimised histories in this run]"
             for fid, (e, n) in sorted(known_hit.items())]
    return exit_code, replays, lines, out


def match_known(known, doc):
    for e in known:
        m = e.get("match", {})
        if m.get("kind", doc["kind"]) != doc["kind"] or m.get("clause") != doc["clause"]:
            continue
        if doc["kind"] == "edit":
            last = doc["ops"][-1]["op"] if doc["ops"] else None
            if "last_op" in m and last not in m["last_op"]:
                continue
            if "requires_ops" in m and not all(any(o["op"] == r for o in doc["ops"]) for r in m["requires_ops"]):
                continue
        else:
            if "requires_options" in m and not all(doc["case"]["options"].get(o) for o in m["requires_options"]):
                continue
        return e
    return None
