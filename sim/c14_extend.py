"""C14, CLI part: the 'naunet extend' pipeline (reduce / remove species / remove
duplicates / append depletion and desorption / reindex / write) run in-process
through cleo's CommandTester in a scratch project directory, as a fresh CLI
process would (process-global tables reset first).  The oracle is stated at
property level; see DESIGN.md section 3.
"""
from __future__ import annotations

import os
import shutil
from collections import Counter

from . import kernel as K
from . import model as M
from . import seams
from . import world as W

PROP = "C14"
CFG = "ambient"
RT_DESORB = {"thermal": 201, "photon": 203, "cosmic-ray": 202}


def gen_case(rng, tier):
    cfg = W.CONFIGS[CFG]
    full = [s for s in cfg["alphabet"] if not W.is_grain(s)]
    size = rng.randint(6, min(14, len(full)))
    alphabet = sorted(rng.sample(full, size), key=full.index)
    if not any(not W.is_ice(s) for s in alphabet):
        alphabet.append("H")
    fmt = rng.choices(["naunet", "kida", "umist"], weights=[7, 2, 1])[0]
    saved = cfg["alphabet"]
    cfg["alphabet"] = alphabet
    try:
        want = rng.randint(2, 30 if tier == "quick" else 60)
        pool = W.gen_pool(rng, CFG, want if fmt == "naunet" else 3 * want, 0, gas_only=(fmt != "naunet"))
        if fmt != "naunet":
            pool = [ar for ar in pool if fmt in W.formats_for(CFG, ar)][:want]
            if len(pool) < 2:
                fmt = "naunet"
                pool = W.gen_pool(rng, CFG, want, 0)  # still inside the grain-free sub-alphabet
    finally:
        cfg["alphabet"] = saved
    # a temperature bound that differs from its twins' only in the second decimal (not equal, so
    # not a duplicate; anything that compares rounded or formatted bounds would merge them)
    if fmt == "naunet":
        for ar in pool:
            if ar["tmin"] == 10.0 and rng.random() < 0.3:
                ar["tmin"] = 10.04
    # the documented equality treats an unknown type as a wildcard.  That is an equivalence relation
    # (so "duplicate" is unambiguous) as long as the reactions that agree in species and temperature
    # range carry at most ONE known type; only otherwise the unknown ones are given a type
    groups = {}
    for ar in pool:
        key = (tuple(sorted(ar["R"])), tuple(sorted(ar["P"])), ar["pseudo"], ar["tmin"], ar["tmax"])
        groups.setdefault(key, []).append(ar)
    for members in groups.values():
        known = {ar["rtype"] for ar in members if ar["rtype"] != W.RT_UNKNOWN}
        if len(known) >= 2:
            for ar in members:
                if ar["rtype"] == W.RT_UNKNOWN:
                    ar["rtype"] = W.RT_TWOBODY
    assert not any(W.is_grain(x) for ar in pool for x in W.species_of(ar)), "extend cases are generated without grain species"
    opts = {
        "remove_species": [],
        "reduce_by_species": [],
        "remove_duplicate": rng.random() < 0.5,
        "append_depletion": rng.random() < 0.5,
        "thermal": rng.random() < 0.4,
        "photon": rng.random() < 0.3,
        "cosmic-ray": rng.random() < 0.3,
    }
    if rng.random() < 0.6:
        picks = rng.sample(alphabet, rng.randint(1, min(3, len(alphabet))))
        closed = []
        for k in picks:
            pair = ("i" + k) if not W.is_ice(k) else k[1:]
            for x in (k, pair):
                if x in cfg["spell"] and x not in closed:
                    closed.append(x)
        opts["remove_species"] = closed
        # the user may spell the electron differently from the file: it is the same species
        opts["e_spelling"] = rng.choice(["e-", "e-", "e", "E", "E-"])
    if rng.random() < 0.3:
        opts["reduce_by_species"] = sorted(rng.sample(alphabet, max(2, int(len(alphabet) * rng.uniform(0.5, 0.95)))),
                                           key=alphabet.index)
    return {"alphabet": alphabet, "pool": pool, "options": opts, "informat": fmt}


def expected(case):
    """Property-level expectation: survivors (in order), dropped input indices, appended multiset."""
    pool, o = case["pool"], case["options"]
    surv = list(range(len(pool)))
    if o["reduce_by_species"]:
        L = set(o["reduce_by_species"])
        surv = [i for i in surv if all(s in L for s in W.species_of(pool[i]))]
    if o["remove_species"]:
        S = set(o["remove_species"])
        surv = [i for i in surv if not any(s in S for s in W.species_of(pool[i]))]
    if o["remove_duplicate"]:
        kept = []
        for i in surv:
            ci = W.expected_content(pool[i], "naunet")
            if not any(M.documented_equal(ci, W.expected_content(pool[j], "naunet")) for j in kept):
                kept.append(i)
        surv = kept
    species = set()
    for i in surv:
        species.update(W.species_of(pool[i]))
    appended = Counter()
    ice = {s for s in species if W.is_ice(s)}
    if o["append_depletion"]:
        for s in species:
            if not W.is_ice(s) and not W.is_grain(s) and W.charge_of(s) == 0:
                appended[((s,), ("i" + s,), 200)] += 1
                ice.add("i" + s)
    for name, rt in RT_DESORB.items():
        if o[name]:
            for s in ice:
                appended[((s,), (s[1:],), rt)] += 1
    dropped = [i for i in range(len(pool)) if i not in surv]
    return surv, dropped, appended


def extend_identity_map():
    """spelling -> key, including the ice twin '#X' of every neutral gas species
    (created by --append-depletion); keys of those twins are 'i' + gas key."""
    idm = W.identity_map(CFG)
    for k, sp in W.CONFIGS[CFG]["spell"].items():
        if not W.is_ice(k) and not W.is_grain(k) and W.charge_of(k) == 0:
            idm.setdefault("#" + sp, "i" + k)
    return idm


def parse_naunet_line(line, idm):
    f = line.rstrip("\n").split(",")
    if len(f) != 16:
        raise ValueError(f"{len(f)} fields")
    R = tuple(sorted(idm[x.strip()] for x in f[1:4] if x.strip()))
    P = tuple(sorted(idm[x.strip()] for x in f[4:9] if x.strip()))
    return {"idx": int(f[0]), "R": R, "P": P, "alpha": float(f[9]), "tmin": float(f[12]), "tmax": float(f[13]),
            "rtype": int(f[14])}


def run_case(case, rundir):
    """Returns (violation or None, stats). violation = (clause, detail)."""
    N = seams.install()
    seams.reset_globals()  # a CLI invocation is a fresh process
    shutil.rmtree(rundir, ignore_errors=True)
    os.makedirs(rundir)
    pool, o = case["pool"], case["options"]
    fmt = case.get("informat", "naunet")
    lines = [W.encode(CFG, ar, fmt, 1000 + i) + "\n" for i, ar in enumerate(pool)]
    cwd = os.getcwd()
    os.chdir(rundir)
    try:
        with seams.quiet():
            from cleo.application import Application
            from cleo.testers.command_tester import CommandTester
            from naunet.configuration import BaseConfiguration
            from naunet.console.commands.extend import ExtendCommand

            with open("naunet_config.toml", "w") as f:
                f.write(BaseConfiguration("simproject").content)
            with open(f"in.{fmt}", "w") as f:
                f.write("".join(lines))
            spell = W.CONFIGS[CFG]["spell"]
            args = [f"in.{fmt}", "out.naunet"]
            if fmt != "naunet":
                args.append(f"--input-format={fmt}")
            if o["remove_species"]:
                args.append("--remove-species=" + ",".join(o.get("e_spelling", spell[k]) if k == "E" else spell[k]
                                                         for k in o["remove_species"]))
            if o["reduce_by_species"]:
                args.append("--reduce-by-species=" + ",".join(spell[k] for k in o["reduce_by_species"]))
            if o["remove_duplicate"]:
                args.append("--remove-duplicate")
            if o["append_depletion"]:
                args.append("--append-depletion")
            for name in RT_DESORB:
                if o[name]:
                    args.append(f"--append-{name}-desorption")
            app = Application()
            app.add(ExtendCommand())
            tester = CommandTester(app.find("extend"))
            try:
                rc = tester.execute(" ".join(args))
            except SystemExit as e:
                rc = e.code
            except Exception as e:
                return ("extend-raised", f"naunet extend {' '.join(args[2:])} raised {type(e).__name__}: {e}")
            if rc not in (0, None):
                return ("extend-raised", f"naunet extend {' '.join(args[2:])} exited with {rc}: {tester.io.fetch_error()[-300:]}")
        if not os.path.exists("out.naunet"):
            return ("extend-no-output", "no output file written")
        out = open("out.naunet").read().splitlines()
        droppedtxt = open(f"dropped_reactions.{fmt}").read() if os.path.exists(f"dropped_reactions.{fmt}") else None
    finally:
        os.chdir(cwd)
    idm = extend_identity_map()
    surv, dropped, appended = expected(case)
    try:
        got = [parse_naunet_line(ln, idm) for ln in out if ln.strip()]
    except (KeyError, ValueError) as e:
        return ("extend-output-unreadable", f"output line not understood: {e!r}")
    removed = set(o["remove_species"])
    for g in got:
        bad = [s for s in g["R"] + g["P"] if s in removed]
        if bad:
            return ("extend-mentions-removed-species", f"output reaction {g['R']} -> {g['P']} mentions removed species {bad}")
    if o["reduce_by_species"] and not (o["append_depletion"] or any(o[k] for k in RT_DESORB)):
        L = set(o["reduce_by_species"])
        for g in got:
            bad = [s for s in g["R"] + g["P"] if s not in L]
            if bad:
                return ("extend-mentions-disallowed-species", f"output reaction {g['R']} -> {g['P']} mentions {bad} outside the reduce list")
    head, tail = got[: len(surv)], got[len(surv):]
    exp_head = [pool[i] for i in surv]
    if len(head) != len(exp_head) or any(
        (h["R"], h["P"], h["tmin"], h["tmax"], h["rtype"], h["alpha"]) !=
        (tuple(sorted(e["R"])), tuple(sorted(e["P"])), float(e["tmin"]), float(e["tmax"]), e["rtype"], float(e["alpha"]))
        for h, e in zip(head, exp_head)
    ):
        return ("extend-survivors-mismatch", f"expected {len(exp_head)} surviving input reactions "
                                            f"{[e['uid'] for e in exp_head]}, output starts with {[(h['R'], h['P'], h['alpha']) for h in head][:6]}")
    got_app = Counter((t["R"], t["P"], t["rtype"]) for t in tail)
    if got_app != appended:
        extra = got_app - appended
        missing = appended - got_app
        return ("extend-appended-mismatch", f"appended reactions differ: unexpected={dict(extra)} missing={dict(missing)}")
    if [g["idx"] for g in got] != list(range(len(got))):
        return ("extend-reindex", f"output indices {[g['idx'] for g in got][:10]}...")
    exp_dropped = "".join(lines[i] for i in dropped)
    if droppedtxt != exp_dropped:
        return ("extend-dropped-file-mismatch", f"dropped file holds {0 if droppedtxt is None else droppedtxt.count(chr(10))} lines, "
                                                f"expected {len(dropped)}")
    return None


def gen_and_run(seed, index, tier, rundir):
    rng = K.rng_for(seed, PROP, index, "extend")
    case = gen_case(rng, tier)
    v = run_case(case, rundir)
    o = case["options"]
    stats = {"remove_species": int(bool(o["remove_species"])), "reduce_by_species": int(bool(o["reduce_by_species"])),
             "remove_duplicate": int(o["remove_duplicate"]), "append_depletion": int(o["append_depletion"]),
             "desorption": int(any(o[k] for k in RT_DESORB)), "input_" + case["informat"]: 1}
    surv, dropped, appended = expected(case)
    return {"case": case, "violation": v, "stats": stats,
            "digest": K.digest([len(surv), len(dropped), sorted(map(repr, appended.items())), v[0] if v else None,
                                [ar["uid"] for ar in case["pool"]], sorted(o.items(), key=repr)])}


def minimise(case, clause, rundir):
    def still(c):
        seams.install()
        v = K.forked_call(run_case, c, rundir)
        return v is not None and v[0] == clause

    if not still(case):
        return None
    pool = K.ddmin(case["pool"], lambda p: still(dict(case, pool=p)), budget=120)
    if still(dict(case, pool=pool)):
        case = dict(case, pool=pool)
    o = dict(case["options"])
    for k in ("remove_duplicate", "append_depletion", "thermal", "photon", "cosmic-ray"):
        if o[k]:
            c2 = dict(case, options=dict(o, **{k: False}))
            if still(c2):
                o = c2["options"]
                case = c2
    for k in ("remove_species", "reduce_by_species"):
        if o[k]:
            c2 = dict(case, options=dict(o, **{k: []}))
            if still(c2):
                o = c2["options"]
                case = c2
    return case


def replay(doc, path):
    rundir = os.path.join(K.scratch_root(), "replay-extend")
    v = run_case(doc["case"], rundir)
    print(f"replay {path}: extend case with {len(doc['case']['pool'])} input reactions, options {doc['case']['options']}")
    if v is not None:
        print(f"  -> {v[0]}: {v[1]}")
    if v is not None and v[0] == doc["clause"]:
        print(f"VIOLATION property={PROP} replay={path}")
        return K.EXIT_VIOLATION
    print("replay did not reproduce the violation on this tree")
    return K.EXIT_OK
