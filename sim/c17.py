"""C17 - Code generation is a deterministic function of the network description.

pysim: 2-4 scripted sessions (API networks and CLI projects from a library of
descriptions that collide on naunet's process-global state) plus optional
foreign writers are interleaved step by step by a seeded scheduler inside one
worker interpreter, with clock jumps, aborted neighbours and failed-and-retried
steps.  Every render must be byte-identical to the rendering of the same
description alone in a fresh interpreter (under two other hash seeds).
"""
from __future__ import annotations

import datetime as _dt
import json
import os
import shutil
import subprocess
import sys
import traceback

from . import c17_lib
from . import kernel as K

PROP = "C17"
REF_HASHSEEDS = ["101", "7919", "4"]
FOREIGN_LISTS = [["X", "Y", "Z"], ["E", "H", "HE", "C", "N", "O", "S", "SI"], ["e", "H", "He", "Co", "Ca", "Cl", "O"], ["H"]]


# --------------------------------------------------------------------------
# references
# --------------------------------------------------------------------------
def _ref_zygote(task):
    hs, descs, base = task
    d = os.path.join(base, f"zyg-{hs}")
    os.makedirs(d, exist_ok=True)
    tasks = []
    for n, desc in enumerate(descs):
        dj, oj = os.path.join(d, f"d{n}.json"), os.path.join(d, f"o{n}.json")
        json.dump(desc, open(dj, "w"))
        tasks.append([dj, oj, os.path.join(d, f"w{n}")])
    tj = os.path.join(d, "tasks.json")
    json.dump(tasks, open(tj, "w"))
    env = dict(os.environ, PYTHONHASHSEED=hs, NAUNET_REPO=K.REPO, REF_PARALLEL=str(max(2, K.workers() // 2)))
    p = subprocess.run([sys.executable, os.path.join(K.VERIF, "sim", "refworker.py"), tj],
                       capture_output=True, text=True, env=env, timeout=3000)
    outs = []
    for n, desc in enumerate(descs):
        oj = tasks[n][1]
        if not os.path.exists(oj):
            raise K.HarnessError(f"reference worker failed for {desc['id']} (hash seed {hs}):\n{p.stderr[-3000:]}")
        outs.append(json.load(open(oj)))
    shutil.rmtree(d, ignore_errors=True)
    return outs


def build_references(lib, scratch):
    """refs[desc id][hash seed] = {'steps': [...], 'renders': [{'digest', 'art'} | {'exc'}]}"""
    base = os.path.join(scratch, "c17-refs")
    os.makedirs(base, exist_ok=True)
    outs = K.pool_map(_ref_zygote, [(hs, lib, base) for hs in REF_HASHSEEDS], nworkers=len(REF_HASHSEEDS), watchdog=3000)
    refs = {}
    for hs, o in zip(REF_HASHSEEDS, outs):
        for d, r in zip(lib, o):
            refs.setdefault(d["id"], {})[hs] = r
    shutil.rmtree(base, ignore_errors=True)
    return refs


def ref_problems(lib, refs):
    """(unusable ids with reason, hash-seed violations)"""
    unusable, hs_viol = {}, []
    for d in lib:
        a = refs[d["id"]][REF_HASHSEEDS[0]]
        bad = [s for s in a["steps"] if s.startswith("exc:")]
        if bad:
            # a render request that succeeded once and RAISES when repeated with no edit in between
            # is a violation of "independent of how often it is rendered", not a library problem
            k, prev_ok, rep = -1, None, None
            for st, outcome in zip(d["steps"], a["steps"]):
                if st["s"] in ("render", "cli_render", "to_code", "export"):
                    k += 1
                    if outcome.startswith("exc:") and prev_ok == st:
                        rep = (k, outcome)
                        break
                    prev_ok = st if outcome == "ok" else None
                elif st["s"] not in ("touch", "write", "enzo_patch", "repickle"):
                    prev_ok = None
            first_bad = next(i for i, s_ in enumerate(a["steps"]) if s_.startswith("exc:"))
            if rep is not None and d["steps"][first_bad]["s"] in ("render", "cli_render", "to_code", "export") and \
                    a["steps"][:first_bad].count("ok") == first_bad:
                hs_viol.append({"desc": d, "render": rep[0], "clause": "repeated-render-differs",
                                "files": [f"the repeated request raised {rep[1][4:200]}"]})
            else:
                unusable[d["id"]] = bad[0]
            continue
        ra = [r.get("digest", r.get("exc")) for r in a["renders"]]
        differs = False
        for h in REF_HASHSEEDS[1:]:
            b = refs[d["id"]][h]
            rb = [r.get("digest", r.get("exc")) for r in b["renders"]]
            if a["steps"] != b["steps"] or ra != rb:
                k = next((i for i, (x, y) in enumerate(zip(ra, rb)) if x != y), 0)
                hs_viol.append({"desc": d, "render": k, "clause": "hash-seed-dependence", "seeds": [REF_HASHSEEDS[0], h],
                                "files": diff_files(a["renders"][k], b["renders"][k])})
                differs = True
                break
        if differs:
            continue
        # "independent of how often it is rendered": an identical render request repeated with
        # no edit in between must give the identical artefact (checked on the solo run itself)
        k = -1
        prev = None
        for st in d["steps"]:
            if st["s"] in ("render", "cli_render", "to_code", "export"):
                k += 1
                if prev is not None and prev[0] == st and ra[k] != ra[prev[1]]:
                    hs_viol.append({"desc": d, "render": k, "clause": "repeated-render-differs",
                                    "files": diff_files(a["renders"][k], a["renders"][prev[1]])})
                    break
                prev = (st, k)
            elif st["s"] not in ("touch", "write", "enzo_patch", "repickle"):
                prev = None
    # prior renderings (and to_code / export calls) must not influence a later rendering
    byid = {d["id"]: d for d in lib}
    for d in lib:
        o = d.get("twin_of")
        if not o:
            continue
        if any(h["desc"]["id"] in (o, d["id"]) for h in hs_viol):
            continue
        fo, ft = refs[o][REF_HASHSEEDS[0]], refs[d["id"]][REF_HASHSEEDS[0]]
        full, last = fo["renders"], ft["renders"]
        if not full or not last:
            continue
        # a failing step other than a rendering makes both scripts library problems
        nonrender_fail = any(out.startswith("exc:") and st["s"] not in ("render", "to_code", "cli_render", "export")
                             for dd, ff in ((byid[o], fo), (d, ft)) for st, out in zip(dd["steps"], ff["steps"]))
        if nonrender_fail:
            continue
        a = full[-1].get("digest") or "raised " + str(full[-1].get("exc"))
        b = last[-1].get("digest") or "raised " + str(last[-1].get("exc"))
        if a != b:
            files = diff_files(full[-1], last[-1]) if "digest" in full[-1] and "digest" in last[-1] else \
                [f"{o}: {a[:60]}; {d['id']}: {b[:60]}"]
            clause = {"sibling": "sibling-network-influences-render",
                      "constructor": "edit-history-influences-render"}.get(d.get("twin_kind"), "prior-render-influences-later-render")
            hs_viol.append({"desc": byid[o], "twin": d, "render": len(full) - 1, "clause": clause, "files": files})
            unusable.pop(o, None)
            unusable.pop(d["id"], None)
    return unusable, hs_viol


def diff_files(x, y):
    ax, ay = x.get("art", {}), y.get("art", {})
    return sorted(k for k in set(ax) | set(ay) if ax.get(k) != ay.get(k)) or [f"{x.get('exc')} vs {y.get('exc')}"]


# --------------------------------------------------------------------------
# one simulated run
# --------------------------------------------------------------------------
SESSION_DIRS = ["astrophysics_s", "jack_rates_s", "constants_v2_s", "renorm_fex_s", "plain_s", "Reaction rates s"]
CLOCK0 = _dt.datetime(2024, 1, 15, 12, 0, 0)
CLOCK_JUMPS = [1, 3600, 86400, 17 * 86400, 40 * 86400, 400 * 86400, -86400 * 20]


def gen_plan(rng, lib_ids, families, tier):
    """World knobs + per-session fault plan. The schedule itself is drawn while running
    (it only depends on which sessions still have steps) and is recorded explicitly."""
    k = rng.choices([2, 3, 4], weights=[5, 3, 1])[0]
    picks = []
    def group(fam):
        return "-".join(fam.split("-")[:2])

    for _ in range(k):
        r = rng.random()
        if picks and r < 0.15:
            picks.append(rng.choice(picks))  # the same description twice
            continue
        if picks and r < 0.35:
            # the near twin of the first session (or the original of a twin), if the library has one
            first = picks[0]
            mates = [i for i in sorted(lib_ids) if i.startswith(first.split("~t")[0] + "~t") or i == first.split("~t")[0]]
            mates = [i for i in mates if i != first]
            if mates:
                picks.append(rng.choice(mates))
                continue
        if picks and r < 0.6:
            # a relative of the first session: same kind of network, different details - the
            # pairs most likely to collide on shared state
            rel = [f for f in families if group(f) == group(lib_ids[picks[0]])]
            fam = rng.choice(rel)
        else:
            fam = rng.choice(families)
        picks.append(rng.choice([i for i in sorted(lib_ids) if lib_ids[i] == fam]))
    kinds = {f: rng.random() < 0.5 for f in ("victim-open-fail", "victim-render-enospc", "aggressor-abort", "foreign", "clock")}
    return {"sessions": picks, "kinds": kinds, "burst": rng.choice([0.0, 0.4, 0.8]), "clock_start_days": rng.randrange(0, 700)}


def systematic_traces(lib_by_id, tier):
    """The part of the schedule space that is enumerated instead of sampled: the pairs most
    likely to collide on process-wide state are (a description, its near twins) and the members
    of one family/group.  Each chain runs its sessions one after the other, so session j is
    rendered in a process that has already built and rendered sessions 0..j-1; the 'interleaved
    construction' variant creates every network first and only then continues each script.
    No faults, no foreign writers: these runs isolate description-vs-description influence."""
    ids = sorted(lib_by_id)
    base = [i for i in ids if "~t" not in i]
    fam = lambda i: lib_by_id[i]["family"]
    group = lambda i: "-".join(fam(i).replace("~tw", "").split("-")[:2])
    nsteps = lambda i: len(lib_by_id[i]["steps"])
    traces = []

    def chain(sessions, interleave_new=False, round_robin=False):
        evs = []
        if round_robin:
            left = [nsteps(d) for d in sessions]
            while any(left):
                for k in range(len(sessions)):
                    if left[k]:
                        evs.append({"e": "step", "session": k})
                        left[k] -= 1
        elif interleave_new:
            heads = [1 if lib_by_id[d]["steps"][0]["s"] == "new" else 0 for d in sessions]
            for k, d in enumerate(sessions):
                evs += [{"e": "step", "session": k}] * heads[k]
            for k, d in enumerate(sessions):
                evs += [{"e": "step", "session": k}] * (nsteps(d) - heads[k])
        else:
            for k, d in enumerate(sessions):
                evs += [{"e": "step", "session": k}] * nsteps(d)
        traces.append({"sessions": list(sessions), "kinds": {k: False for k in ("victim-open-fail", "victim-render-enospc",
                       "aggressor-abort", "foreign", "clock")}, "burst": 0.0,
                       "clock_start_days": K.hash64("|".join(sessions)) % 700, "events": [dict(e) for e in evs]})

    for d in base:
        tw = [i for i in ids if i.startswith(d + "~t")]
        if not tw:
            continue
        if tier == "quick":
            chain([d] + tw + [d])
            chain([d] + tw, interleave_new=True)
        else:
            for t in tw:
                chain([d, t, d])
                chain([t, d, t])
                chain([d, t], interleave_new=True)
                chain([t, d], interleave_new=True)
    fams = {}
    for i in base:
        fams.setdefault(fam(i), []).append(i)
    grp = {}
    for i in base:
        grp.setdefault(group(i), []).append(i)
    # aborted aggressor: a description's file turns out to be corrupt at its last line (or half-way),
    # the reading call dies there and the session is abandoned with whatever it had installed;
    # then the same description, its family neighbour and a group neighbour are built and rendered
    for a in base:
        d = lib_by_id[a]
        fstep = next((k for k, st in enumerate(d["steps"]) if st["s"] == "add_file" or (st["s"] == "new" and st.get("files"))
                      or (st["s"] == "cli_render" and any(not f.endswith(".py") for f in d.get("files", {})))), None)
        if fstep is None:
            continue
        st = d["steps"][fstep]
        fname = st["file"] if st["s"] == "add_file" else st["files"][-1][0] if st["s"] == "new" else \
            sorted(f for f in d["files"] if not f.endswith(".py"))[-1]
        nlines = len(d["files"][fname].splitlines())
        fm, gm = fams[fam(a)], [x for x in grp[group(a)] if fam(x) != fam(a)]
        victims = [a, fm[(fm.index(a) + 1) % len(fm)]] + ([gm[K.hash64(a) % len(gm)]] if gm else [])
        victims = [v for k, v in enumerate(victims) if v not in victims[:k] or v == a and k == 0]
        for at in ([nlines] if tier == "quick" else [nlines, max(1, nlines // 2)]):
            sessions = [a] + victims
            evs = [{"e": "step", "session": 0} for _ in range(fstep)] + [{"e": "step", "session": 0, "fault": "parse-abort", "at": at}]
            for k, v in enumerate(victims):
                evs += [{"e": "step", "session": k + 1} for _ in range(nsteps(v))]
            traces.append({"sessions": sessions, "kinds": {k: False for k in ("victim-open-fail", "victim-render-enospc",
                           "aggressor-abort", "foreign", "clock")}, "burst": 0.0,
                           "clock_start_days": K.hash64("|".join(sessions)) % 700, "events": evs})
    for f in sorted(fams):
        m = fams[f][:6] if tier == "quick" else fams[f][:12]
        if len(m) >= 2:
            chain(m + m[-2::-1])
            chain(m, interleave_new=True)
            chain(m, round_robin=True)
    # many unrelated networks in one process: chain k takes the k-th member of EVERY family, in
    # family order and in reverse, so that every ordered pair of families occurs (aggressor built,
    # edited and rendered somewhere before the victim) with several choices of members
    width = max(len(m) for m in fams.values()) if fams else 0
    width = min(width, 5 if tier == "quick" else 12)
    for k in range(width):
        m = [fams[f][(k + j) % len(fams[f])] for j, f in enumerate(sorted(fams))]
        if len(m) >= 2:
            chain(m)
            chain(m[::-1])
            if k == 0:
                chain(m, interleave_new=True)
            if k == 1:
                chain(m, round_robin=True)  # every session advances one step at a time
    groups = {}
    for f in sorted(fams):
        groups.setdefault(group(fams[f][0]), []).append(fams[f][-1])
    for g in sorted(groups):
        m = groups[g]
        if len(m) >= 2:
            chain(m + m[-2::-1])
    return traces


def execute(plan_or_trace, lib_by_id, refs, rundir, rng=None, neutralise=None):
    """Run one simulation. With rng: draw the schedule/faults and record them (returns the
    trace).  Without: replay an explicit trace.  Returns dict(trace, violation, stats)."""
    from . import c17_session, seams

    seams.install()
    seams.reset_globals()
    replaying = rng is None
    tr = plan_or_trace
    sessions = []
    for i, did in enumerate(tr["sessions"]):
        # directory names a user might choose; the rendering must not care what the path says
        sessions.append(c17_session.Session(lib_by_id[did], os.path.join(rundir, SESSION_DIRS[i % len(SESSION_DIRS)] + str(i))))
    seams.CLOCK.set(CLOCK0 + _dt.timedelta(days=tr["clock_start_days"]))
    events = tr["events"] if replaying else []
    log = K.EventLog()
    stats = {"renders": 0, "faults": {}, "clock_jumps": 0, "month_cross": 0, "year_cross": 0, "steps": 0,
             "pairs": set(), "interleave": []}
    violation = None
    last = None
    aborted = set()
    rendered_by = []
    stepped = set()
    ev_i = 0
    N = seams.N
    while True:
        live = [i for i, s in enumerate(sessions) if not s.done() and i not in aborted]
        if replaying:
            if ev_i >= len(events):
                break
            ev = events[ev_i]
            ev_i += 1
        else:
            if not live:
                break
            ev = draw_event(rng, tr, live, last, sessions)
            events.append(ev)
        kind = ev["e"]
        if kind == "clock":
            before = seams.CLOCK.now_value
            seams.CLOCK.advance(ev["seconds"])
            after = seams.CLOCK.now_value
            stats["clock_jumps"] += 1
            stats["month_cross"] += int((before.year, before.month) != (after.year, after.month))
            stats["year_cross"] += int(before.year != after.year)
            log.add("clock", ev["seconds"])
            continue
        if kind == "foreign":
            with seams.quiet():
                try:
                    if ev["what"] == "set_elements":
                        N.Species.set_known_elements(list(ev["elements"]))
                    elif ev["what"] == "add_elements":
                        N.Species.add_known_elements(list(ev["elements"]))
                    elif ev["what"] == "set_pseudo":
                        N.Species.set_known_pseudoelements(list(ev["elements"]))
                    elif ev["what"] == "add_pseudo":
                        N.Species.add_known_pseudoelements(list(ev["elements"]))
                    elif ev["what"] == "reset":
                        N.Species.reset()
                    elif ev["what"] == "bare_species":
                        N.Species.set_known_elements(list(ev["elements"]))
                        N.Species(ev["name"])
                except RuntimeError:
                    pass
            stats["faults"]["foreign-table-write"] = stats["faults"].get("foreign-table-write", 0) + 1
            log.add("foreign", ev["what"])
            continue
        i = ev["session"]
        if i >= len(sessions) or sessions[i].done() or i in aborted:
            continue  # (only possible in a shrunk trace)
        s = sessions[i]
        st = s.peek()
        last = i
        if neutralise is not None and s.desc["id"] == neutralise[0]:
            neutralise[1](N)  # counterfactual: one channel restored before every step of the victim
        stats["steps"] += 1
        stats["interleave"].append((s.desc["family"], st["s"]))
        stepped.add(i)
        fault = ev.get("fault")
        is_render = st["s"] in ("render", "to_code", "cli_render", "export")
        if fault == "abort":
            # aggressor: the session is abandoned here, leaving whatever it installed
            aborted.add(i)
            stats["faults"]["abandoned-session"] = stats["faults"].get("abandoned-session", 0) + 1
            log.add("abort", i, s.pc)
            continue
        pa_file = None
        if fault == "parse-abort":
            if st["s"] == "add_file":
                pa_file = st["file"]
            elif st["s"] == "new" and st.get("files"):
                pa_file = st["files"][-1][0]
            elif st["s"] == "cli_render":
                data = [f for f in sorted(s.desc.get("files", {})) if not f.endswith(".py")]
                pa_file = data[-1] if data else None
        if fault == "parse-abort" and pa_file:
            # aggressor: its file is corrupted at line k; the call dies half-way, session abandoned
            p = os.path.join(s.dir, pa_file)
            lines = open(p).read().splitlines(True)
            k = min(ev.get("at", 1), len(lines))
            lines.insert(k, "%%% corrupted line %%%\n")
            open(p, "w").write("".join(lines))
            try:
                s.step()
            except Exception:
                pass
            aborted.add(i)
            stats["faults"]["parse-abort"] = stats["faults"].get("parse-abort", 0) + 1
            log.add("parse-abort", i, s.pc)
            continue
        if fault == "open-fail" and st["s"] == "add_file":
            seams.PLAN.arm(kind="open-fail", match=st["file"], mode="r")
            try:
                s.step()
                raise K.HarnessError("armed open-fail did not fire")
            except OSError as e:
                if seams.PLAN.fired and seams.PLAN.fired[-1][0] == "open-fail" and "simulated" in str(e):
                    stats["faults"]["open-fail"] = stats["faults"].get("open-fail", 0) + 1
                    log.add("open-fail", i, s.pc)
                    seams.PLAN.clear()
                    continue  # the step is retried later by the scheduler (pc unchanged)
                seams.PLAN.clear()
                violation = step_exception(s, i, st, e, refs, log, is_render)
            except K.HarnessError:
                raise
            except Exception as e:
                seams.PLAN.clear()
                violation = step_exception(s, i, st, e, refs, log, is_render)
            if violation and violation != "expected":
                break
            continue
        if fault == "render-enospc" and is_render:
            seams.PLAN.arm(kind="write-enospc", match=os.sep, mode="w", nth=ev.get("nth", 1), limit=ev.get("limit", 0))
            try:
                s.step()
                seams.PLAN.clear()
                # fewer files than nth: nothing fired, the render simply succeeded
                res = s.results[-1]
                fired = False
            except OSError as e:
                seams.PLAN.clear()
                if "simulated" in str(e):
                    stats["faults"]["render-enospc"] = stats["faults"].get("render-enospc", 0) + 1
                    log.add("render-enospc", i, s.pc)
                    continue  # retried later
                violation = step_exception(s, i, st, e, refs, log, is_render)
                if violation and violation != "expected":
                    break
                continue
            except K.HarnessError:
                raise
            except Exception as e:
                seams.PLAN.clear()
                violation = step_exception(s, i, st, e, refs, log, is_render)
                if violation and violation != "expected":
                    break
                violation = None
                continue
            # fallthrough: compare as a normal render
            ev = dict(ev, fault=None)
            violation = compare_render(s, i, refs, stats, [sessions[j].desc["family"] for j in sorted(stepped) if j != i], log)
            if violation:
                break
            continue
        # ---- normal step ----
        try:
            kind2, res = s.step()
        except K.HarnessError:
            raise
        except Exception as e:
            violation = step_exception(s, i, st, e, refs, log, is_render)
            if violation == "expected":
                violation = None
                continue
            break
        log.add("step", i, s.pc, kind2)
        if kind2 == "render":
            violation = compare_render(s, i, refs, stats, [sessions[j].desc["family"] for j in sorted(stepped) if j != i], log)
            if violation:
                break
    stats["pairs"] = sorted(stats["pairs"])
    trace = dict(tr, events=events)
    return {"trace": trace, "violation": violation, "stats": stats, "digest": log.digest()}


def execute_isolated(plan_or_trace, lib_by_id, refs, rundir, rng=None, neutralise=None):
    """execute() in a forked child of this (pristine, post-import) worker: every run and every
    minimisation candidate starts from the state of a fresh process, so nothing a run leaves
    behind - known to the simulator or not - can influence another run or break replay."""
    from . import seams

    seams.install()
    r = K.forked_call(_execute_child, plan_or_trace, lib_by_id, refs, rundir, rng, neutralise)
    return r


def _execute_child(plan_or_trace, lib_by_id, refs, rundir, rng, neutralise):
    fn = channels().get(neutralise[1]) if neutralise else None
    r = execute(plan_or_trace, lib_by_id, refs, rundir, rng=rng, neutralise=(neutralise[0], fn) if neutralise else None)
    r["stats"]["pairs"] = [list(p) for p in r["stats"]["pairs"]]
    return r


def step_exception(s, i, st, e, refs, log, is_render):
    """A session step raised (and it was not an injected fault). Returns a violation dict, or
    "expected" when the solo reference raised the same way at the same render."""
    from . import c17_session as _cs

    if K.raised_in_harness(e) and not isinstance(e, _cs.StepFailed):
        raise K.HarnessError(f"simulator code failed in step {st['s']}: {type(e).__name__}: {e}\n"
                             + "".join(traceback.format_exception(type(e), e, e.__traceback__)))
    ref = refs[s.desc["id"]][REF_HASHSEEDS[0]]
    tail = "".join(traceback.format_exception(type(e), e, e.__traceback__)[-3:])
    if is_render:
        s.skip_failed_render(e)
        k = s.nrender - 1
        exp = ref["renders"][k] if k < len(ref["renders"]) else {}
        if "exc" in exp and exp["exc"] == type(e).__name__:
            log.add("render-exc", i, k)
            return "expected"
        return {"clause": "render-raised-only-with-neighbours", "session": i, "desc": s.desc["id"], "render": k,
                "detail": f"{st['s']} raised {type(e).__name__}: {str(e)[:300]} but the solo reference rendered fine"}
    return {"clause": "step-raised-only-with-neighbours", "session": i, "desc": s.desc["id"], "render": None,
            "detail": f"step {s.pc} {st['s']} raised {type(e).__name__}: {str(e)[:300]} but not in the solo reference\n{tail}"}


def compare_render(s, i, refs, stats, rendered_by, log):
    k = s.nrender - 1
    res = s.results[-1]
    stats["renders"] += 1
    for fam in rendered_by:
        stats["pairs"].add((fam, s.desc["family"]))
    ref = refs[s.desc["id"]][REF_HASHSEEDS[0]]["renders"]
    from . import c17_session

    dig = c17_session.artefact_digest(res["art"])
    log.add("render", i, k, dig)
    if k >= len(ref) or "art" not in ref[k]:
        return {"clause": "render-outcome-differs", "session": i, "desc": s.desc["id"], "render": k,
                "detail": "the solo reference raised where the interleaved run rendered"}
    if dig != ref[k]["digest"]:
        files = diff_files(res, ref[k])
        return {"clause": "render-differs-from-solo", "session": i, "desc": s.desc["id"], "render": k, "files": files,
                "detail": f"render #{k} of {s.desc['id']} differs from its solo rendering in {files[:6]}" + first_diff(s, k, files)}
    return None


def first_diff(s, k, files):
    return ""


def draw_event(rng, tr, live, last, sessions):
    kinds = tr["kinds"]
    r = rng.random()
    if kinds["clock"] and r < 0.12:
        return {"e": "clock", "seconds": rng.choice(CLOCK_JUMPS)}
    if kinds["foreign"] and r < 0.22:
        what = rng.choice(["set_elements", "add_elements", "set_pseudo", "add_pseudo", "reset", "bare_species"])
        ev = {"e": "foreign", "what": what}
        if what != "reset":
            ev["elements"] = rng.choice(FOREIGN_LISTS)
        if what == "bare_species":
            ev["name"] = rng.choice(["HE", "Co", "X2Y", "SIO"])
        return ev
    if last in live and rng.random() < tr["burst"]:
        i = last
    else:
        i = rng.choice(live)
    s = sessions[i]
    st = s.peek()
    ev = {"e": "step", "session": i}
    # the first session is the designated victim: it only ever receives clean faults
    victim = i == 0
    is_render = st["s"] in ("render", "to_code", "cli_render", "export")
    if victim:
        if kinds["victim-open-fail"] and st["s"] == "add_file" and rng.random() < 0.3:
            ev["fault"] = "open-fail"
        elif kinds["victim-render-enospc"] and is_render and rng.random() < 0.3:
            ev["fault"] = "render-enospc"
            ev["nth"] = rng.randint(1, 28)
            ev["limit"] = rng.choice([0, 0, 17, 400])
    elif kinds["aggressor-abort"]:
        r2 = rng.random()
        if st["s"] == "add_file" and r2 < 0.25:
            ev["fault"] = "parse-abort"
            ev["at"] = rng.randint(0, 6)
        elif r2 < 0.06:
            ev["fault"] = "abort"
        elif is_render and r2 < 0.2:
            ev["fault"] = "render-enospc"
            ev["nth"] = rng.randint(1, 28)
            ev["limit"] = rng.choice([0, 17])
    return ev


# --------------------------------------------------------------------------
# minimisation / replay / known findings
# --------------------------------------------------------------------------
def minimise(trace, clause, victim_desc, lib_by_id, refs, rundir):
    def still(evs, sess=None):
        t = dict(trace, events=evs)
        if sess is not None:
            t["sessions"] = sess
        try:
            r = execute_isolated(t, lib_by_id, refs, rundir)
        except K.HarnessError:
            return False
        v = r["violation"]
        return v is not None and v["clause"] == clause and v["desc"] == victim_desc

    evs = trace["events"]
    if not still(evs):
        return None
    evs = K.ddmin(evs, still, budget=120)
    t = dict(trace, events=evs)
    # drop sessions that no longer take a step
    used = sorted({e["session"] for e in evs if e["e"] == "step"})
    if len(used) < len(t["sessions"]):
        remap = {o: n for n, o in enumerate(used)}
        sess2 = [t["sessions"][u] for u in used]
        ev2 = [dict(e, session=remap[e["session"]]) if e["e"] == "step" else e for e in evs]
        t2 = dict(t, sessions=sess2, events=ev2)
        r = execute_isolated(t2, lib_by_id, refs, rundir)
        if r["violation"] and r["violation"]["clause"] == clause and r["violation"]["desc"] == victim_desc:
            t = t2
    # drop faults that are not needed
    evs = t["events"]
    for j in range(len(evs)):
        if evs[j].get("fault"):
            cand = evs[:j] + [{k: v for k, v in evs[j].items() if k not in ("fault", "nth", "limit", "at")}] + evs[j + 1:]
            if still(cand, t["sessions"]):
                evs = cand
    return dict(t, events=evs)


def channels():
    """Counterfactual neutralisers for open known findings: name -> function(seams.N) that
    restores that one channel to the state of a fresh process."""
    def user_tables(N):
        N.chemistrydata.user_binding_energy.clear()
        N.chemistrydata.user_photon_yield.clear()
        N.chemistrydata.user_enthalpy.clear()

    def replacement(N):
        N.Species._replacement = {}

    def cli_tables(N):
        user_tables(N)
        replacement(N)

    return {"user-tables": user_tables, "replacement": replacement, "cli-tables": cli_tables}


def replay(path):
    doc = json.load(open(path))
    scratch = K.scratch_root()
    if doc.get("kind") == "hashseed":
        lib = [doc["desc"]] + ([doc["twin"]] if doc.get("twin") else [])
        refs = build_references(lib, scratch)
        un, hv = ref_problems(lib, refs)
        hv = [h for h in hv if h["clause"] == doc["clause"]]
        print(f"replay {path}: description {doc['desc']['id']} alone, hash seeds {REF_HASHSEEDS}, clause {doc['clause']}: "
              f"{'reproduced' if hv else 'not reproduced'}")
        if hv:
            print(f"VIOLATION property={PROP} replay={path}")
            return K.EXIT_VIOLATION
        return K.EXIT_OK
    lib = doc["descriptions"]
    lib_by_id = {d["id"]: d for d in lib}
    refs = build_references(lib, scratch)
    r = K.pool_map(_replay_task, [(doc["trace"], lib_by_id, refs, os.path.join(scratch, "c17-replay"))], nworkers=1, force_pool=True)[0]
    v = r["violation"]
    print(f"replay {path}: sessions {doc['trace']['sessions']}, {len(doc['trace']['events'])} events, expected {doc['clause']}")
    if v:
        print(f"  -> {v['clause']}: {v['detail']}")
    if v and v["clause"] == doc["clause"]:
        print(f"VIOLATION property={PROP} replay={path}")
        return K.EXIT_VIOLATION
    print("replay did not reproduce the violation on this tree")
    return K.EXIT_OK


def _replay_task(task):
    trace, lib_by_id, refs, rundir = task
    return execute_isolated(trace, lib_by_id, refs, rundir)


def _report_task(task):
    """Minimisation runs inside a pool worker (a pristine post-import interpreter that forks
    one child per candidate), never in the checker process itself."""
    viols, hs_viol, lib_by_id, lib, refs, seed, scratch = task
    return report(viols, hs_viol, lib_by_id, lib, refs, seed, scratch)


# --------------------------------------------------------------------------
# simulation zygotes: fresh interpreters, one PYTHONHASHSEED each
# --------------------------------------------------------------------------
SIM_ZYGOTES = 8


def sim_hashseeds(seed):
    return [str(1 + K.hash64(seed, PROP, "sim-hash-seed", z) % 4294967290) for z in range(SIM_ZYGOTES)]


def run_zygotes(payload, jobs, scratch, timeout):
    """jobs: {hash seed: job dict}. Runs each job in a fresh interpreter under that hash seed."""
    import pickle

    d = os.path.join(scratch, "c17-zyg")
    os.makedirs(d, exist_ok=True)
    pj = os.path.join(d, "payload.pickle")
    pickle.dump(payload, open(pj, "wb"))
    procs = []
    per = max(1, K.workers() // max(1, len(jobs)))
    for n, (hs, job) in enumerate(sorted(jobs.items())):
        tj, oj = os.path.join(d, f"job{n}.pickle"), os.path.join(d, f"out{n}.pickle")
        pickle.dump(job, open(tj, "wb"))
        if os.path.exists(oj):
            os.remove(oj)
        env = dict(os.environ, PYTHONHASHSEED=hs, NAUNET_REPO=K.REPO, VERIF_WORKERS=str(per))
        procs.append((hs, oj, subprocess.Popen([sys.executable, os.path.join(K.VERIF, "sim", "c17_simworker.py"), pj, tj, oj],
                                               stdout=subprocess.PIPE, stderr=subprocess.PIPE, text=True, env=env)))
    outs = {}
    for hs, oj, p in procs:
        try:
            so, se = p.communicate(timeout=timeout)
        except subprocess.TimeoutExpired:
            p.kill()
            raise K.HarnessError(f"simulation zygote (hash seed {hs}) exceeded {timeout}s")
        if p.returncode != 0 or not os.path.exists(oj):
            raise K.HarnessError(f"simulation zygote (hash seed {hs}) failed: rc={p.returncode}\n{se[-3000:]}")
        kind, val = pickle.load(open(oj, "rb"))
        if kind != "ok":
            raise K.HarnessError(f"simulation zygote (hash seed {hs}): {val}")
        outs[hs] = val
    shutil.rmtree(d, ignore_errors=True)
    return outs


# --------------------------------------------------------------------------
# batch
# --------------------------------------------------------------------------
_G = {}


def _worker(task):
    seed, tier = _G["seed"], _G["tier"]
    lib_by_id, refs = _G["lib_by_id"], _G["refs"]
    fam_of = _G["fam_of"]
    families = sorted(set(fam_of.values()))
    base = os.path.join(_G["scratch"], f"c17-w{os.getpid()}")
    stats = {"runs": 0, "renders": 0, "steps": 0, "faults": {}, "clock_jumps": 0, "month_cross": 0, "year_cross": 0,
             "pairs": set(), "interleavings": set(), "faultfree_runs": 0, "systematic_runs": 0}
    viols, digests, samples = [], [], []
    if task[0] == "sys":
        todo = [(-(n + 1), None, tr) for n, tr in task[1]]
    else:
        todo = [(index, K.rng_for(seed, PROP, index), None) for index in range(task[1], task[2])]
    for index, rng, tr in todo:
        rundir = os.path.join(base, "r")
        shutil.rmtree(rundir, ignore_errors=True)
        if tr is None:
            plan = gen_plan(rng, fam_of, families, tier)
            r = execute_isolated(plan, lib_by_id, refs, rundir, rng=rng)
        else:
            plan = tr
            r = execute_isolated(tr, lib_by_id, refs, rundir)
            stats["systematic_runs"] += 1
        st = r["stats"]
        stats["runs"] += 1
        for k in ("renders", "steps", "clock_jumps", "month_cross", "year_cross"):
            stats[k] += st[k]
        for k, v in st["faults"].items():
            stats["faults"][k] = stats["faults"].get(k, 0) + v
        if not st["faults"]:
            stats["faultfree_runs"] += 1
        stats["pairs"].update(tuple(p) for p in st["pairs"])
        stats["interleavings"].add(K.hash64(st["interleave"]))
        digests.append(r["digest"])
        if r["violation"]:
            viols.append({"index": index, "trace": r["trace"], "violation": r["violation"],
                          "hashseed": os.environ.get("PYTHONHASHSEED")})
        if not samples and index % 40 == 0:
            samples.append({"sessions": plan["sessions"], "events": r["trace"]["events"][:30]})
    shutil.rmtree(base, ignore_errors=True)
    stats["pairs"] = sorted(stats["pairs"])
    stats["interleavings"] = sorted(stats["interleavings"])
    return {"stats": stats, "viols": viols[:10], "nviol": len(viols), "digest": K.digest(digests), "samples": samples}


def main(argv):
    tier = K.tier_arg(argv)
    seed = K.base_seed()
    timer = K.Timer()
    scratch = K.scratch_root()
    lib = c17_lib.build_library(seed, tier)
    refs = build_references(lib, scratch)
    unusable, hs_viol = ref_problems(lib, refs)
    ref_s = timer.s()
    expected = {d["id"] for d in lib if d.get("expect_unusable")} | {d["id"] for d in lib if d.get("twin_of") in
                                                                     {x["id"] for x in lib if x.get("expect_unusable")}}
    # (a guard against a broken harness or library, not an oracle: only the hand-written base
    # descriptions count - perturbed twins and the solo-only variants are sloppy on purpose)
    nbase = len([d for d in lib if "~" not in d["id"]])
    if not hs_viol and (len([u for u in unusable if not u.startswith("rnd-") and "~" not in u and u not in expected]) > 6 + nbase // 50
                        or len(unusable) > len(lib) * 0.5):
        raise K.HarnessError(f"too many unusable descriptions: {unusable}")
    # (descriptions whose own renderings fail in the same way alone may still take part as aggressors)
    usable = [d for d in lib if (d["id"] not in unusable or d.get("aggressor_ok")) and not d.get("twin_of") and not d.get("solo_only")
              and not any(h["desc"]["id"] == d["id"] for h in hs_viol)]
    if len(usable) < 4:
        usable = [d for d in lib if (d["id"] not in unusable or d.get("aggressor_ok")) and not d.get("twin_of") and not d.get("solo_only")]
    lib_by_id = {d["id"]: d for d in usable}
    fam_of = {d["id"]: d["family"] for d in usable}
    census = {}
    for d in usable:
        for f in c17_lib.features(d):
            census[f] = census.get(f, 0) + 1
    missing = [f for f in c17_lib.ESSENTIAL_FEATURES if census.get(f, 0) < (1 if f != "two_grain_charge_states" else 2)]
    # (reported in the evidence: the reach of this check is the diversity of its library)
    nruns = {"quick": 320, "thorough": 40000}[tier]
    if os.environ.get("C17_RUNS"):
        nruns = int(os.environ["C17_RUNS"])
    chunk = int(os.environ.get("C17_CHUNK", "2"))
    sys_traces = list(enumerate(systematic_traces(lib_by_id, tier)))
    if os.environ.get("C17_NO_SYSTEMATIC"):
        sys_traces = []
    # the enumerated stratum first (it is the part that must not be cut by the time budget)
    tasks = [("sys", sys_traces[i:i + chunk]) for i in range(0, len(sys_traces), chunk)]
    tasks += [("rnd", i, min(i + chunk, nruns)) for i in range(0, nruns, chunk)]
    G = dict(seed=seed, tier=tier, scratch=scratch, lib_by_id=lib_by_id, refs=refs, fam_of=fam_of)
    _G.update(G)
    budget = {"quick": 420, "thorough": 3300}[tier]
    hseeds = sim_hashseeds(seed)
    payload = {"G": G, "lib": lib, "deadline": timer.t0 + budget}
    jobs = {hs: {"mode": "runs", "tasks": [t for j, t in enumerate(tasks) if j % SIM_ZYGOTES == z]} for z, hs in enumerate(hseeds)}
    jobs = {hs: j for hs, j in jobs.items() if j["tasks"]}
    outs = run_zygotes(payload, jobs, scratch, timeout=budget + 1500)
    parts = [None] * len(tasks)
    for z, hs in enumerate(hseeds):
        mine = [j for j in range(len(tasks)) if j % SIM_ZYGOTES == z]
        for j, part in zip(mine, outs.get(hs, [])):
            parts[j] = part
    done = [p for p in parts if p is not None]
    skipped = len(parts) - len(done)
    tot = {"runs": 0, "renders": 0, "steps": 0, "faults": {}, "clock_jumps": 0, "month_cross": 0, "year_cross": 0,
           "pairs": set(), "interleavings": set(), "faultfree_runs": 0, "systematic_runs": 0}
    for p in done:
        s = p["stats"]
        for k in ("runs", "renders", "steps", "clock_jumps", "month_cross", "year_cross", "faultfree_runs", "systematic_runs"):
            tot[k] += s[k]
        for k, v in s["faults"].items():
            tot["faults"][k] = tot["faults"].get(k, 0) + v
        tot["pairs"].update(tuple(x) for x in s["pairs"])
        tot["interleavings"].update(s["interleavings"])
    viols = [v for p in done for v in p["viols"]]
    nviol = sum(p["nviol"] for p in done)
    batch_digest = K.digest([p["digest"] for p in done])

    exit_code, replays, known_lines, out_lines = K.pool_map(
        _report_task, [([], hs_viol, lib_by_id, lib, refs, seed, scratch)], nworkers=1, watchdog=3000, force_pool=True)[0]
    by_hs = {}
    for v in viols:
        by_hs.setdefault(v["hashseed"], []).append(v)
    # one representative per (clause, victim family) over all hash seeds, minimised under its own seed
    seen_sig, jobs2, nrep = set(), {}, len(replays)
    for hs in sorted(by_hs):
        keep = []
        for v in sorted(by_hs[hs], key=lambda x: x["index"]):
            sig = (v["violation"]["clause"], lib_by_id[v["violation"]["desc"]]["family"])
            if sig not in seen_sig and len(seen_sig) < 12:
                seen_sig.add(sig)
                keep.append(v)
        if keep:
            jobs2[hs] = {"mode": "report", "viols": keep, "first_replay": nrep}
            nrep += len(keep)
    if jobs2:
        outs2 = run_zygotes(payload, jobs2, scratch, timeout=3000)
        for hs in sorted(outs2):
            ec, rp, kl, ol = outs2[hs]
            replays += rp
            known_lines += kl
            out_lines += ol
            if ec == K.EXIT_VIOLATION or (ec == K.EXIT_HARNESS and exit_code == K.EXIT_OK):
                exit_code = ec
    for ln in out_lines + sorted(set(known_lines)):
        print(ln)
    # regression corpus: minimised schedules / solo scenarios of earlier violations.  Each is replayed by
    # `./check --replay` in its own interpreter (under the hash seed it was found with), a few at a time.
    corpus = K.corpus_files(PROP)
    corpus_hits, corpus_unusable = 0, []
    if corpus:
        import subprocess
        from concurrent.futures import ThreadPoolExecutor

        def _one(f):
            env = dict(os.environ, VERIF_NO_CORPUS="1")
            env.pop("PYTHONHASHSEED", None)
            env.pop("VERIF_REPLAY_REEXEC", None)
            try:
                p_ = subprocess.run([os.path.join(K.VERIF, "check"), "--replay", f], capture_output=True, text=True,
                                    cwd=K.VERIF, env=env, timeout=900)
            except subprocess.TimeoutExpired:
                return f, 2, "timeout"
            return f, p_.returncode, p_.stdout[-1500:] + p_.stderr[-500:]

        with ThreadPoolExecutor(max_workers=min(6, K.workers())) as ex:
            for f, rc_, out_ in ex.map(_one, corpus):
                if rc_ == K.EXIT_VIOLATION and f"VIOLATION property={PROP}" in out_:
                    corpus_hits += 1
                    first = next((ln for ln in out_.splitlines() if ln.startswith("replay ") or ln.startswith("  -> ")), "")
                    print(f"violated clause: corpus scenario {os.path.basename(f)} reproduces: {first[:300]}")
                    print(f"VIOLATION property={PROP} replay={f}")
                    exit_code = K.EXIT_VIOLATION
                elif rc_ != K.EXIT_OK:
                    corpus_unusable.append(f"{os.path.basename(f)}: exit {rc_}: {out_[-160:]}")
    wall = timer.s()
    families = sorted(set(fam_of.values()))
    samples = [s for p in done for s in p["samples"]][:2] or [{"note": "no sample"}]
    samples.append({"description_example": {k: v for k, v in usable[0].items() if k != "files"},
                    "files_of_example": {k: v[:400] for k, v in usable[0].get("files", {}).items()}})
    coverage = {
        "evaluations": tot["renders"] + 2 * sum(len(refs[d["id"]][REF_HASHSEEDS[0]]["renders"]) for d in lib),
        "distinct_nontrivial": len(tot["interleavings"]),
        "rule": "one evaluation = one rendering compared byte-for-byte (sha256 per file of include/ src/ python/ CMakeLists.txt "
                "[+jac_pattern.dat]) with the solo fresh-interpreter rendering of the same description, plus the reference "
                "renderings themselves (two hash seeds each). distinct_nontrivial = distinct interleavings, i.e. distinct sequences "
                "of (session family, step kind) actually executed in runs with at least two sessions",
        "samples": samples,
        "exhaustive": False,
        "runs": tot["runs"],
        "corpus_scenarios_replayed": len(corpus),
        "corpus_scenarios_reproduced": corpus_hits,
        "corpus_scenarios_unusable": corpus_unusable,
        "systematic_runs": tot["systematic_runs"],
        "systematic_runs_planned": len(sys_traces),
        "runs_per_hour": int(tot["runs"] / max(wall - ref_s, 1e-6) * 3600),
        "renders_compared": tot["renders"],
        "session_steps": tot["steps"],
        "library_descriptions": len([d for d in lib if not d.get("twin_of")]),
        "library_twins_without_prior_renders": len([d for d in lib if d.get("twin_of")]),
        "library_near_twins": len([d for d in lib if d.get("near_twin_of") and not d.get("twin_of")]),
        "library_usable": len(usable),
        "library_unusable": unusable,
        "families": families,
        "library_feature_census": dict(sorted(census.items())),
        "library_missing_essential_features": missing,
        "hash_seeds": {"references": REF_HASHSEEDS, "simulation_zygotes": hseeds, "checker": os.environ.get("PYTHONHASHSEED")},
        "hash_seed_disagreements": len(hs_viol),
        "faults_fired": tot["faults"],
        "fault_free_runs": tot["faultfree_runs"],
        "clock": {"jumps": tot["clock_jumps"], "month_boundaries_crossed": tot["month_cross"], "year_boundaries_crossed": tot["year_cross"],
                  "reference_clock": str(CLOCK0), "simulated_start_range_days": 700},
        "ordered_family_pairs_exercised": len(tot["pairs"]),
        "ordered_family_pairs_possible": len(families) ** 2,
        "chunks_skipped_for_time": skipped,
        "batch_digest": batch_digest,
        "violations_total_occurrences": nviol,
        "reference_build_s": round(ref_s, 2),
        "components": {
            "real": ["Network construction/edit paths", "all format classes", "TemplateLoader.render with every template of the back-end",
                     "Network.to_code", "RenderCommand via cleo CommandTester"],
            "stub": ["datetime.now (simulated clock)", "tqdm (identity)", "open() in naunet.network/templateloader (fault wrapper)", "stdout/logging (sink)"],
        },
    }
    K.write_evidence(PROP, tier, seed, "exploration", coverage, wall, len(replays) + corpus_hits, [
        "the reference is the same tree's own solo rendering: C17 cannot tell whether it is right, only whether it is the same",
        "victim sessions carry explicit element lists; bare Species/Reaction constructions are atomic with installing the session's lists",
        "only include/ src/ python/ CMakeLists.txt (and jac_pattern.dat) enter the digest; the CMake project VERSION yy.mm is canonicalised",
        "foreign actors use only the public Species list setters; chemistrydata.update_* called directly by a user is global by design and not used as an aggressor",
    ])
    print(f"C17 {tier}: {tot['runs']} runs / {tot['renders']} renders compared in {wall:.1f}s (refs {ref_s:.1f}s), "
          f"{len(tot['interleavings'])} distinct interleavings, pairs {len(tot['pairs'])}/{len(families) ** 2}, "
          f"faults {tot['faults']}, digest {batch_digest}")
    return exit_code


def report(viols, hs_viol, lib_by_id, lib, refs, seed, scratch, first_replay=0):
    known = K.load_known_findings(PROP)
    out = []
    exit_code = K.EXIT_OK
    replays, known_hit, seen = [], {}, set()
    rundir = os.path.join(scratch, f"c17-min-{os.getpid()}")
    solo_seen = set()
    for h in hs_viol:
        if (h["clause"], h["desc"]["family"]) in solo_seen or len(solo_seen) >= 8:
            continue
        solo_seen.add((h["clause"], h["desc"]["family"]))
        doc = {"kind": "hashseed", "seed": seed, "clause": h["clause"], "desc": h["desc"], "files": h["files"]}
        path = K.write_replay(PROP, seed, first_replay + len(replays), doc)
        replays.append(path)
        if h["clause"] == "hash-seed-dependence":
            out.append(f"violated clause: hash-seed-dependence: {h['desc']['id']} alone renders differently under PYTHONHASHSEED "
                  f"{' and '.join(h.get('seeds', REF_HASHSEEDS[:2]))} in {h['files'][:5]}")
        elif h["clause"] == "prior-render-influences-later-render":
            doc["twin"] = h["twin"]
            K.write_replay(PROP, seed, first_replay + len(replays) - 1, doc)
            out.append(f"violated clause: prior-render-influences-later-render: {h['desc']['id']} alone: its last rendering differs from "
                       f"the same script with the earlier render/to_code/export (and read-only write/inspection) steps left out, in {h['files'][:5]}")
        elif h["clause"] == "edit-history-influences-render":
            doc["twin"] = h["twin"]
            K.write_replay(PROP, seed, first_replay + len(replays) - 1, doc)
            out.append(f"violated clause: edit-history-influences-render: {h['desc']['id']} alone (allowed list set after building): its "
                       f"last rendering differs from that of {h['twin']['id']}, the same network constructed with that list, in {h['files'][:5]}")
        elif h["clause"] == "sibling-network-influences-render":
            doc["twin"] = h["twin"]
            K.write_replay(PROP, seed, first_replay + len(replays) - 1, doc)
            out.append(f"violated clause: sibling-network-influences-render: {h['desc']['id']} alone: its last rendering differs from "
                       f"that of {h['twin']['id']}, the same script with a second network built from the first one's reactions "
                       f"and edited before that rendering, in {h['files'][:5]}")
        else:
            out.append(f"violated clause: repeated-render-differs: {h['desc']['id']} alone: render #{h['render']} repeats the previous "
                  f"request with no edit in between but differs in {h['files'][:5]}")
        out.append(f"VIOLATION property={PROP} replay={path}")
        exit_code = K.EXIT_VIOLATION
    for v in sorted(viols, key=lambda x: x["index"]):
        vi = v["violation"]
        fam = lib_by_id[vi["desc"]]["family"]
        sig = (vi["clause"], fam)
        if sig in seen or len(seen) >= 12:
            continue
        seen.add(sig)
        t = minimise(v["trace"], vi["clause"], vi["desc"], lib_by_id, refs, rundir)
        if t is None:
            out.append(f"HARNESS: violation {sig} (run {v['index']}) did not reproduce from its recorded trace")
            exit_code = K.EXIT_HARNESS if exit_code == K.EXIT_OK else exit_code
            continue
        r = execute_isolated(t, lib_by_id, refs, rundir)
        vv = r["violation"]
        # counterfactual attribution to open known findings
        fid = None
        for e in known:
            ch = e.get("channel")
            if ch and counterfactual_clean(t, ch, lib_by_id, refs, rundir, vi):
                fid = e
                break
        if fid is not None:
            known_hit.setdefault(fid["id"], [fid, 0])[1] += 1
            continue
        ids = sorted(set(t["sessions"]))
        doc = {"kind": "interleaving", "seed": seed, "index": v["index"], "clause": vi["clause"], "detail": vv["detail"],
               "trace": t, "descriptions": [lib_by_id[i] for i in ids], "hashseed": os.environ.get("PYTHONHASHSEED")}
        path = K.write_replay(PROP, seed, first_replay + len(replays), doc)
        replays.append(path)
        out.append(f"violated clause: {vi['clause']} (run index {v['index']}, victim family {fam}): {vv['detail'][:500]}")
        out.append(f"  minimised schedule: sessions={t['sessions']} events=" + json.dumps(t["events"])[:700])
        out.append(f"VIOLATION property={PROP} replay={path}")
        exit_code = K.EXIT_VIOLATION  # a demonstrated violation outranks a harness problem elsewhere
    lines = [f"KNOWN-FINDING: property={PROP} {e['what']} [{fid}; {n} minimised schedules in this run]"
             for fid, (e, n) in sorted(known_hit.items())]
    return exit_code, replays, lines, out


def counterfactual_clean(trace, channel, lib_by_id, refs, rundir, vi):
    """Re-run the minimised schedule with only `channel` restored to its fresh-process value
    before every step of the victim description; True iff the violation disappears."""
    fn = channels().get(channel)
    if fn is None:
        return False
    r = execute_isolated(trace, lib_by_id, refs, rundir, neutralise=(vi["desc"], channel))
    return r["violation"] is None
