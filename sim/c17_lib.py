"""C17 description library: complete, literal session scripts (what a user would
write down) drawn from parametrised families that collide on naunet's
process-global state.  No naunet import; data files are read as text from the
repository under test.
"""
from __future__ import annotations

import os

from . import kernel as K
from . import world as W

METHODS = [("cvode", "dense", "cpu"), ("cvode", "sparse", "cpu"), ("cvode", "cusparse", "gpu"),
           ("odeint", "rosenbrock4", "cpu")]

MIXED = {"elements": ["e", "H", "D", "He", "C", "N", "O"], "pseudo_elements": ["CR", "CRP", "Photon", "PHOTON", "CRPHOT"]}
UPPER = {"elements": ["E", "H", "D", "HE", "C", "N", "O"], "pseudo_elements": ["CR", "CRP", "PHOTON", "CRPHOT"]}
UCL_ELEMENTS = ["E", "H", "D", "HE", "C", "N", "O", "MG", "SI", "S", "CL"]
UCL_REPLACEMENT = {"E": "e", "HE": "He", "MG": "Mg", "SI": "Si", "CL": "Cl"}
UCL_SET = {"H", "H2", "C", "O", "CO", "OH", "H2O", "O2", "E-", "H+", "C+", "HE", "HE+", "HCO+", "H3+", "H2+", "O+",
           "OH+", "H2O+", "H3O+", "CH", "CH+", "CO+", "HCO", "#CO", "#H2O", "#O2", "#CH4", "CH4", "CH2", "CH3"}
UCL_KEYWORDS = {"NAN", "CRP", "PHOTON", "CRPHOT", "FREEZE", "DESOH2", "DESCR", "DEUVCR", "THERM", "DIFF", "CHEMDES"}


def render_step(rng, pattern_ok=True):
    s, m, d = rng.choice(METHODS)
    return {"s": "render", "solver": s, "method": m, "device": d, "pattern": pattern_ok and rng.random() < 0.15}


def api_tail(rng, nreac, can_edit=True, can_export=True, extras=()):
    """1-4 render-like steps (render / to_code / export) with optional edits in between:
    maybe touch; render-like; [edit]; render-like; ...  `extras` are ready-made add steps."""
    steps = []
    if rng.random() < 0.4:
        steps.append({"s": "touch"})
    extras = list(extras)
    k = rng.choice([1, 2, 2, 3, 4])
    removed = 0
    prev = None
    edited_since = None
    for j in range(k):
        r = rng.random()
        if prev is not None and r < 0.3:
            st = dict(prev)  # identical repeat (render, to_code or export over the older export), no edit in between
        elif r < 0.72:
            st = render_step(rng)
        elif r < 0.86 or not can_export:
            s_, m_, d_ = rng.choice(METHODS)
            st = {"s": "to_code", "solver": s_, "method": m_, "device": d_}
        else:
            s_, m_, d_ = rng.choice(METHODS)
            st = {"s": "export", "solver": s_, "method": m_, "device": d_}
        if edited_since is not None and st["s"] == "render" and rng.random() < 0.5:
            # re-render IN PLACE after the edit: same request, same directory as the render before it
            st = dict(edited_since, inplace=True)
        steps.append(st)
        prev = st
        edited_since = None
        if j < k - 1 and can_edit and rng.random() < 0.45:
            if extras and rng.random() < 0.5:
                steps.append(extras.pop())
                nreac += 1
            elif nreac - removed >= 2:
                steps.append({"s": "rm_idx", "i": 0})
                removed += 1
            if prev["s"] == "render":
                edited_since = {kk: vv for kk, vv in prev.items() if kk != "inplace"}
            prev = None
    import json as _json

    h = K.hash64(_json.dumps(steps, sort_keys=True))
    if h % 3 != 2:
        # the session keeps its TemplateLoader objects: a repeated or in-place `render` request goes
        # through the loader that served the earlier one (whatever loaders others created meanwhile)
        seen_keys = set()
        for st in steps:
            if st["s"] == "render":
                key = (st["solver"], st["method"], st["device"])
                if key in seen_keys or h % 3 == 0:
                    st["reuse_loader"] = True
                seen_keys.add(key)
    if h % 4 == 0:
        # the user also writes the reactions to a file after the first rendering (read-only in intent)
        first = next(i for i, st in enumerate(steps) if st["s"] in ("render", "to_code", "export"))
        steps.insert(first + 1, {"s": "write", "fmt": ["naunet", "naunet", ""][(h // 4) % 3]})
    elif h % 4 == 1:
        # ... or generates the patch files for a host code (`naunet render --patch enzo`) from the network
        first = next(i for i, st in enumerate(steps) if st["s"] in ("render", "to_code", "export"))
        steps.insert(first + (h // 4) % 2, {"s": "enzo_patch", "device": "cpu"})
    return steps


def pool_lines(rng, cfg, n, fmt, must_have=None):
    """n reactions of configuration cfg that format fmt can carry."""
    out = []
    tries = 0
    while len(out) < n and tries < 50:
        tries += 1
        pool = W.gen_pool(rng, cfg, 30, uid0=len(out) * 100 + tries * 1000, gas_only=True)
        for ar in pool:
            if ar["rtype"] == W.RT_UNKNOWN and fmt != "krome":
                ar = dict(ar, rtype=W.RT_TWOBODY)
            if fmt in W.formats_for(cfg, ar) and len(out) < n:
                if any(W.is_ice(s) or W.is_grain(s) for s in W.species_of(ar)):
                    continue
                out.append(ar)
    if must_have and not any(must_have in W.species_of(ar) for ar in out):
        out[0] = dict(out[0], R=[must_have], P=[must_have + "+", "E"], pseudo="CR", rtype=W.RT_CR)
    # small, distinct coefficients (they are rendered verbatim)
    for i, ar in enumerate(out):
        ar["uid"] = i
        ar["alpha"] = round((i + 1) * 1.5e-10, 13)
    return out


def species_names(cfg, ars):
    names = []
    for ar in ars:
        for k in W.species_of(ar):
            sp = W.CONFIGS[cfg]["spell"][k]
            if sp not in names:
                names.append(sp)
    return names


def fam_api_text(rng, idx, cfg, lists, fmt):
    n = rng.randint(3, 10)
    ars = pool_lines(rng, cfg, n, fmt, must_have="He" if cfg == "upper" else None)
    fname = f"net.{fmt}"
    content = "".join(W.encode(cfg, ar, fmt, 10 + i) + "\n" for i, ar in enumerate(ars))
    names = species_names(cfg, ars)
    net = dict(lists)
    if rng.random() < 0.3 and len(names) > 4:
        net["allowed_species"] = [x for x in names if rng.random() < 0.8] or names
    if not net.get("allowed_species") and rng.random() < 0.35:
        # species that take part in no reaction but must be carried (e.g. for cooling)
        he = W.CONFIGS[cfg]["spell"]["He"]
        cand = [x for x in (he, he + "+", he + "++", "N", "D", "D+", "N+") if x not in names]
        net["required_species"] = rng.sample(cand, min(len(cand), rng.randint(2, 3)))
    if rng.random() < 0.3:
        net["rate_modifier"] = {str(10 + rng.randrange(len(ars))): "1.0e-10 * zeta"}
    if rng.random() < 0.2:
        net["shielding"] = rng.choice([{"H2": "L96Table"}, {"CO": "V09Table"}, {"N2": "L13Table"}, {"H2": "L96Table", "CO": "VB88Table"}])
    if rng.random() < 0.35 and not net.get("allowed_species"):
        a, b = rng.choice(names), rng.choice(names)
        net["ode_modifier"] = {a: {"factors": ["-1.0e-17 * nH"], "reactants": [[b]]}}
    steps = []
    if rng.random() < 0.5:
        steps.append({"s": "new", "files": [[fname, fmt]]})
    else:
        steps += [{"s": "new"}, {"s": "add_file", "file": fname, "fmt": fmt}]
    if idx % 2 == 0 or rng.random() < 0.35:
        # one more reaction given as a (string, format) pair (tied to the index: every library has them)
        ar = dict(pool_lines(rng, cfg, 1, fmt)[0], alpha=3.3e-11)
        if not net.get("allowed_species") or all(W.CONFIGS[cfg]["spell"][k] in net["allowed_species"] for k in W.species_of(ar)):
            steps.append({"s": "add_str", "line": W.encode(cfg, ar, fmt, 77) + "\n", "fmt": fmt})
            n += 1
    if rng.random() < 0.3:
        ar = pool_lines(rng, cfg, 1, "naunet")[0]
        sp = W.CONFIGS[cfg]["spell"]
        if not net.get("allowed_species") or all(sp[k] in net["allowed_species"] for k in W.species_of(ar)):
            steps.append({"s": "add_inst", "R": [sp[k] for k in ar["R"]], "P": [sp[k] for k in ar["P"]],
                          "pseudo": [W.CONFIGS[cfg]["pseudo_names"][ar["pseudo"]]] if ar["pseudo"] else [],
                          "alpha": 7.7e-11, "rtype": ar["rtype"], "idx": 99, "tmin": rng.choice([10, 10.0, 300]), "tmax": rng.choice([300, 41000, 41000.0])})
            n += 1
    if not net.get("shielding") and rng.random() < 0.2:
        # the shielding table is only reachable through the property (there is no setter): edit it in place
        steps.append({"s": "shielding_inplace", "values": rng.choice([{"H2": "L96Table"}, {"CO": "V09Table"}, {"N2": "L13Table"}])})
    if rng.random() < 0.25 and not net.get("ode_modifier") and len(names) > 3:
        # narrow the network after the fact; the property promises the same result as constructing it so
        steps.append({"s": "set_allowed", "names": [x for x in names if rng.random() < 0.85] or names})
    extras = []
    if not net.get("allowed_species"):
        sp = W.CONFIGS[cfg]["spell"]
        for q in range(2):
            ar = pool_lines(rng, cfg, 1, "naunet")[0]
            extras.append({"s": "add_inst", "R": [sp[k] for k in ar["R"]], "P": [sp[k] for k in ar["P"]],
                           "pseudo": [W.CONFIGS[cfg]["pseudo_names"][ar["pseudo"]]] if ar["pseudo"] else [],
                           "alpha": 5.5e-11 + q * 1e-12, "rtype": ar["rtype"], "idx": 200 + q,
                           # Python ints, as in Reaction([...], [...], 10, 300): numerically equal to the
                           # 10.0 / 300.0 the file readers produce, textually different
                           "tmin": 10 if q == 0 else 10.0, "tmax": 300 if q == 0 else 41000.0})
        if len(names) >= 3:
            # a reaction among species the network already has
            a, b, c = rng.sample(names, 3)
            extras.append({"s": "add_inst", "R": [a, b], "P": [c], "pseudo": [], "alpha": 6.6e-11, "rtype": 100, "idx": 210})
            rng.shuffle(extras)
    # (Network.export cannot serialise integer rate-modifier keys - a naunet limitation outside C17)
    steps += api_tail(rng, n, can_edit=not (net.get("ode_modifier") or net.get("allowed_species")),
                      can_export=not net.get("rate_modifier"), extras=extras)
    for st in steps:
        if st["s"] == "touch":
            st["where"] = rng.choice(names)
    return {"id": f"api-{cfg}-{fmt}-{idx}", "family": f"api-{cfg}-{fmt}", "entry": "api", "name": "simproj",
            "files": {fname: content}, "net": net, "steps": steps}


def fam_api_krome_custom(rng, idx):
    variant = rng.randrange(3)
    commons = [["user_crate", "user_Av"], ["user_zeta"], []][variant]
    # (@var expressions that use SEVERAL of the built-in derived symbols Te, lnTe, T32, invT, invTe,
    # sqrTgas, and each other: whatever orders the declarations must not do so through a set)
    vars_ = [["invT2 = 1.0/Tgas/Tgas", "k3b = 1.3d-32*T32**(-0.38d0)*invT*sqrTgas"],
             ["sqT = sqrt(Tgas)", "T4 = Tgas/1.0d4", "kte = 2.0d0*Te*invTe*lnTe + sqT*T4*invT"], []][variant]
    fmtline = rng.choice(["@format:idx,R,R,P,P,P,Tmin,Tmax,rate", "@format:idx,R,R,R,P,P,Tmin,Tmax,rate", None])
    lines = ["# generated krome network"]
    if commons:
        lines.append("@common:" + ",".join(commons))
    lines.append("@var:Hnuclei = get_Hnuclei(n(:))")
    for v in vars_:
        lines.append("@var:" + v)
    if fmtline:
        lines.append(fmtline)
    nslot = {None: (3, 4), "@format:idx,R,R,P,P,P,Tmin,Tmax,rate": (2, 3), "@format:idx,R,R,R,P,P,Tmin,Tmax,rate": (3, 2)}[fmtline]
    reacs = [(["H", "H"], ["H2"]), (["H2", "E"], ["H", "H", "E"][: nslot[1]] if nslot[1] >= 3 else ["H", "H"]),
             (["H+", "E"], ["H"]), (["He", "E"], ["He+", "E"]), (["He+", "E"], ["He"]), (["H", "He+"], ["H+", "He"]),
             (["H2", "H+"], ["H2+", "H"]), (["H2+", "H"], ["H2", "H+"])]
    rng.shuffle(reacs)
    reacs = reacs[: rng.randint(3, 7)]
    rates = ["1.0d-17*sqrt(Tgas)", "3.5d-12*(T32)**(-0.75d0)", "2.0d-9*exp(-5.0d2*invT)"]
    # the same rates in the other spellings KROME files use (case of the exponent letter, of
    # function names): texts that differ only in case must not be confused with each other
    rates += rng.sample(["4.380E-08*(T32)**(-5.000E-01)", "4.380e-08*(T32)**(-5.000e-01)", "6.400E-10", "6.400e-10",
                         "2.0d-9*EXP(-5.0d2*invT)", "1.0d-17*SQRT(Tgas)"], 3)
    if variant == 0:
        rates += ["1.3d-17*user_crate", "invT2*1.0d-5", "k3b*2.0d0"]
    if variant == 1:
        rates += ["user_zeta*2.0d0", "sqT*1.0d-12/T4", "kte*1.0d-11"]
    for i, (R, P) in enumerate(reacs):
        R = (R + [""] * nslot[0])[: nslot[0]]
        P = (P + [""] * nslot[1])[: nslot[1]]
        tmin = rng.choice(["NONE", ">2.0d2", "10"])
        tmax = rng.choice(["NONE", ".LE.5.5e3", "41000"])
        lines.append(",".join([str(i + 1)] + R + P + [tmin, tmax, rng.choice(rates)]))
    net = {"elements": ["E", "H", "He"], "pseudo_elements": ["g", "Photon"]}
    steps = [{"s": "new"}, {"s": "add_file", "file": "net.krome", "fmt": "krome"}] + api_tail(rng, len(reacs))
    return {"id": f"api-krome-custom{variant}-{idx}", "family": f"api-krome-custom{variant}", "entry": "api",
            "name": "simproj", "files": {"net.krome": "\n".join(lines) + "\n"}, "net": net, "steps": steps}


def fam_krome_primordial(rng, idx, entry):
    src = os.path.join(K.REPO, "naunet", "examples", "primordial", "primordial.krome")
    content = open(src).read()
    net = {"elements": ["e", "H", "D", "He"], "pseudo_elements": ["Photon"],
           "allowed_species": ["e-", "H", "H+", "H-", "D", "D+", "He", "He+", "He++", "H2", "H2+", "HD"],
           "cooling": ["CIC_HI", "CIC_HeI", "CIC_HeII", "CIC_He_2S", "RC_HII", "RC_HeI", "RC_HeII", "RC_HeIII",
                       "CEC_HI", "CEC_HeI", "CEC_HeII"] if rng.random() < 0.7 else []}
    if entry == "cli":
        s, m, d = rng.choice(METHODS)
        return {"id": f"cli-krome-primordial-{idx}", "family": "cli-krome-primordial", "entry": "cli", "name": "simproj",
                "files": {"primordial.krome": content}, "net": net,
                "cli": {"files": ["primordial.krome"], "formats": ["krome"], "solver": s, "method": m, "device": d},
                "steps": [{"s": "cli_render"}] + ([{"s": "cli_render"}] if rng.random() < 0.4 else [])}
    steps = [{"s": "new", "files": [["primordial.krome", "krome"]]}] + api_tail(rng, 30, can_edit=False)
    return {"id": f"api-krome-primordial-{idx}", "family": "api-krome-primordial", "entry": "api", "name": "simproj",
            "files": {"primordial.krome": content}, "net": net, "steps": steps}


_UCL_CACHE = {}


def ucl_lines():
    if "lines" not in _UCL_CACHE:
        src = os.path.join(K.REPO, "naunet", "examples", "cloud", "reactions.ucl")
        keep = []
        for ln in open(src).read().splitlines():
            f = ln.split(",")
            if len(f) != 12:
                continue
            sp = [x for x in f[:7] if x not in UCL_KEYWORDS]
            if all(x in UCL_SET for x in sp):
                keep.append(ln)
        _UCL_CACHE["lines"] = keep
    return _UCL_CACHE["lines"]


def fam_cli_uclchem(rng, idx, with_binding, repl="full"):
    lines = ucl_lines()
    grain = [ln for ln in lines if any(k in ln.split(",")[:3] for k in ("FREEZE", "DESOH2", "DESCR", "DEUVCR", "THERM"))]
    gas = [ln for ln in lines if ln not in grain]
    model = rng.choice(["rr07", "rr07x"])
    if model == "rr07":
        grain = [ln for ln in grain if "THERM" not in ln.split(",")[:3]]
    core = [ln for ln in grain if ln.split(",")[0] in ("CO", "#CO") and ln.split(",")[1] in ("FREEZE", "DESCR", "DEUVCR", "DESOH2")]
    rest = [ln for ln in grain if ln not in core]
    pick = rng.sample(gas, min(len(gas), rng.randint(4, 10))) + core + rng.sample(rest, min(len(rest), rng.randint(1, 4)))
    if idx % 2 == 0:
        # photodissociation of CO (self-shielded): the rate calls the shielding routine of the configured table
        pick += [ln for ln in gas if ln.startswith("CO,PHOTON,") and ln not in pick]
    net = {"elements": list(UCL_ELEMENTS), "pseudo_elements": ["CR", "CRP", "PHOTON", "CRPHOT"], "grain_model": model}
    table = {"full": dict(UCL_REPLACEMENT), "none": {}, "partial": {"HE": "He"}}[repl]
    cli = {"files": ["reactions.ucl"], "formats": ["uclchem"], "replacement": table}
    cli["solver"], cli["method"], cli["device"] = rng.choice(METHODS)
    if with_binding:
        cli["binding_energy"] = {"#CO": float(rng.choice([1300, 1150, 2222])), "#H2O": float(rng.choice([5600, 4800])),
                                 "#O2": 1200.0, "#CH4": 960.0}
        if rng.random() < 0.5:
            cli["photon_yield"] = {"#CO": 0.1, "#H2O": 0.05}
    if rng.random() < 0.3:
        net["shielding"] = {"CO": "VB88Table"}
    steps = [{"s": "cli_render", "pattern": rng.random() < 0.2}]
    if rng.random() < 0.4:
        steps.append({"s": "cli_render"})
    tag = ("bind" if with_binding else "nobind") + ("" if repl == "full" else "-repl" + repl)
    return {"id": f"cli-uclchem-{tag}-{idx}", "family": f"cli-uclchem-{tag}", "entry": "cli", "name": "simproj",
            "files": {"reactions.ucl": "\n".join(pick) + "\n"}, "net": net, "cli": cli, "steps": steps}


def fam_cli_kida(rng, idx):
    ars = pool_lines(rng, "mixed", rng.randint(3, 8), "kida")
    content = "".join(W.encode("mixed", ar, "kida", 10 + i) + "\n" for i, ar in enumerate(ars))
    net = dict(MIXED)
    if rng.random() < 0.5:
        have = species_names("mixed", ars)
        net["required_species"] = rng.sample([x for x in ["He", "He+", "N", "D", "D+"] if x not in have], 2)
    if idx % 2 == 1:
        # a project that leaves both lists empty: the COMMAND installs what the config says, so "empty"
        # means naunet's defaults whatever was installed before (unlike an API network without lists,
        # which inherits the ambient lists by design and is therefore never a victim here)
        net["elements"], net["pseudo_elements"] = [], []
    cli = {"files": ["net.kida"], "formats": ["kida"]}
    cli["solver"], cli["method"], cli["device"] = rng.choice(METHODS)
    return {"id": f"cli-kida-{idx}", "family": "cli-kida", "entry": "cli", "name": "simproj", "files": {"net.kida": content},
            "net": net, "cli": cli, "steps": [{"s": "cli_render"}] + ([{"s": "cli_render"}] if rng.random() < 0.5 else [])}


def fam_api_native_grain(rng, idx, gprefix):
    """naunet-format (or instance-built) network with ice species and a grain model;
    uses the default binding-energy table, so it is a victim of leaked user tables."""
    pre = "G" if gprefix else "#"
    gas = [(["H", "H"], ["H2"], 100), (["C", "O"], ["CO"], 100), (["O", "H2"], ["H2O"], 100), (["CO", "CR"], ["C", "O"], 101),
           (["H2O", "Photon"], ["O", "H2"], 102), (["O", "O"], ["O2"], 100)]
    # the variant is tied to the index, so that every library has hh93 networks with two grain
    # charge states, whatever the random stream does
    model = ["hh93", "rr07x", "hh93", "rr07", "hh93"][idx % 5]
    ice = [(["CO"], [pre + "CO"], 200), (["H2O"], [pre + "H2O"], 200), (["O2"], [pre + "O2"], 200)]
    if model != "rr07":
        ice += [([pre + "CO"], ["CO"], 201), ([pre + "H2O"], ["H2O"], 201), ([pre + "O2"], ["O2"], 201)]
    rng.shuffle(gas)
    rng.shuffle(ice)
    reacs = gas[: rng.randint(2, 5)] + ice[: rng.randint(2, 6)]
    if model == "hh93" and not gprefix:
        # charged and neutral grains in one grain group: electron capture and cation recombination
        reacs += [(["e-", "GRAIN0"], ["GRAIN-"], 221), (["C+", "GRAIN-"], ["C", "GRAIN0"], 220)]
        if rng.random() < 0.5:
            reacs.append((["H+", "GRAIN-"], ["H", "GRAIN0"], 220))
    net = dict(MIXED, grain_model=model)
    if gprefix:
        net["species_kwargs"] = {"surface_prefix": "G"}
    steps = [{"s": "new"}]
    files = {}

    def coef(R, P):
        # the same reaction has the same coefficients in every description of this family
        return round((sum(map(ord, "".join(R + P))) % 89 + 1) * 1.1e-11, 13)

    if gprefix or rng.random() < 0.4:
        for i, (R, P, t) in enumerate(reacs):
            pseudo = [x for x in R if x in ("CR", "Photon")]
            steps.append({"s": "add_inst", "R": [x for x in R if x not in pseudo], "P": P, "pseudo": pseudo,
                          "alpha": coef(R, P), "rtype": t, "idx": -1, "tmin": 10.0, "tmax": -1.0})
    else:
        lines = []
        for i, (R, P, t) in enumerate(reacs):
            Rf = (R + [""] * 3)[:3]
            Pf = (P + [""] * 5)[:5]
            lines.append(",".join(["-1"] + Rf + Pf + [repr(coef(R, P)), "0.0", "0.0", "10.0", "-1.0", str(t), "sim"]))
        files["net.naunet"] = "\n".join(lines) + "\n"
        steps.append({"s": "add_file", "file": "net.naunet", "fmt": "naunet"})
    if rng.random() < 0.3 and any(pre + "CO" in R + P for R, P, _ in reacs):
        net["ode_modifier"] = {pre + "CO": {"factors": ["-1.0e-15"], "reactants": [[pre + "CO"]]}}
    if rng.random() < 0.4:
        # binding energies set on this network's own species objects (instance state, not a global table)
        steps.append({"s": "set_eb", "values": {pre + "CO": float(rng.choice([855, 1300, 1575])), pre + "H2O": float(rng.choice([4800, 5700]))}})
    steps += api_tail(rng, len(reacs), can_edit=not net.get("ode_modifier"))
    tag = "gprefix" if gprefix else "hash"
    return {"id": f"api-grain-{tag}-{idx}", "family": f"api-grain-{tag}", "entry": "api", "name": "simproj", "files": files,
            "net": net, "steps": steps}


_LEEDS_CACHE = {}


def fam_api_leeds(rng, idx):
    """Walsh-style ('leeds') fixed-width network: every species is parsed with the 'G' surface prefix."""
    if "lines" not in _LEEDS_CACHE:
        src = os.path.join(K.REPO, "tests", "data", "rate12_HO.leeds")
        _LEEDS_CACHE["lines"] = [ln for ln in open(src).read().splitlines() if ln.strip() and ln[122:125].strip() == "1"]
    lines = rng.sample(_LEEDS_CACHE["lines"], rng.randint(4, 12))
    net = dict(MIXED, species_kwargs={"surface_prefix": "G"})
    if rng.random() < 0.4:
        net["shielding"] = rng.choice([{"H2": "L96Table"}, {"CO": "V09Table"}, {"N2": "L13Table"}, {"CO": "VB88Table"}])
    steps = [{"s": "new"}, {"s": "add_file", "file": "net.leeds", "fmt": "leeds"}] + api_tail(rng, len(lines))
    return {"id": f"api-leeds-{idx}", "family": "api-leeds", "entry": "api", "name": "simproj",
            "files": {"net.leeds": "\n".join(lines) + "\n"}, "net": net, "steps": steps}


COOLING_NEEDS = {
    "CIC_HI": ["H", "e-"], "CIC_HeI": ["He", "e-"], "CIC_HeII": ["He+", "e-"], "CIC_He_2S": ["He+", "e-"],
    "RC_HII": ["H+", "e-"], "RC_HeI": ["He+", "e-"], "RC_HeII": ["He+", "e-"], "RC_HeIII": ["He++", "e-"],
    "CEC_HI": ["H", "e-"], "CEC_HeI": ["He+", "e-"], "CEC_HeII": ["He+", "e-"],
}


def fam_api_cooling(rng, idx):
    """Small thermal networks: the cooling processes are module-level objects shared by every
    network in the process, while the positions of their reactants differ from network to network."""
    base = [(["H", "e-"], ["H+", "e-", "e-"]), (["H+", "e-"], ["H"])]
    he = [(["He", "e-"], ["He+", "e-", "e-"]), (["He+", "e-"], ["He"])]
    hepp = [(["He+", "e-"], ["He++", "e-", "e-"]), (["He++", "e-"], ["He+"])]
    h2 = [(["H", "H"], ["H2"]), (["H", "e-"], ["H-"]), (["H-", "H"], ["H2", "e-"])]
    variant = idx % 4
    reacs = list(base)
    if variant >= 1:
        reacs += he
    if variant >= 2:
        reacs += hepp
    if variant == 3 or rng.random() < 0.4:
        reacs += h2
    rng.shuffle(reacs)
    present = {x for R, P in reacs for x in R + P}
    cool = [c for c, need in COOLING_NEEDS.items() if all(n in present for n in need)]
    cool = [c for c in cool if rng.random() < 0.8] or cool[:1]
    net = {"elements": ["e", "H", "D", "He"], "pseudo_elements": ["Photon"], "cooling": cool}
    if rng.random() < 0.5:
        cand = [x for x in ["D", "D+", "He", "He+", "He++", "H2", "H-"] if x not in present]
        net["required_species"] = rng.sample(cand, min(len(cand), rng.randint(1, 3)))
    lines = []
    for i, (R, P) in enumerate(reacs):
        Rf = (R + [""] * 3)[:3]
        Pf = (P + [""] * 5)[:5]
        lines.append(",".join([str(i)] + Rf + Pf + [repr(round((i + 1) * 2.1e-11, 13)), "-0.5", "0.0", "10.0", "41000.0", "100", "sim"]))
    steps = [{"s": "new"}, {"s": "add_file", "file": "net.naunet", "fmt": "naunet"}] + api_tail(rng, len(reacs), can_edit=False)
    return {"id": f"api-cooling{variant}-{idx}", "family": f"api-cooling{variant}", "entry": "api", "name": "simproj",
            "files": {"net.naunet": "\n".join(lines) + "\n"}, "net": net, "steps": steps}


def fam_api_noindex(rng, idx):
    """Reactions built as bare instances WITHOUT file indices; the renderer numbers them in joining
    order.  A rate modifier addresses reactions by that number."""
    reacs = [(["H", "H"], ["H2"], 100), (["C", "O"], ["CO"], 100), (["O", "H2"], ["H2O"], 100), (["CO", "CR"], ["C", "O"], 101),
             (["H2O", "Photon"], ["O", "H2"], 102), (["O", "O"], ["O2"], 100), (["H", "O"], ["OH"], 100)]
    rng.shuffle(reacs)
    reacs = reacs[: rng.randint(4, 7)]
    net = dict(MIXED)
    if rng.random() < 0.7:
        net["rate_modifier"] = {str(rng.randrange(1, len(reacs))): "2.5e-10 * zeta"}
    steps = [{"s": "new"}]
    for i, (R, P, t) in enumerate(reacs):
        pseudo = [x for x in R if x in ("CR", "Photon")]
        steps.append({"s": "add_inst", "R": [x for x in R if x not in pseudo], "P": P, "pseudo": pseudo,
                      "alpha": round((i + 1) * 1.3e-10, 13), "rtype": t, "idx": -1})
    steps += api_tail(rng, len(reacs), can_edit=True, can_export=not net.get("rate_modifier"))
    return {"id": f"api-noindex-{idx}", "family": "api-noindex", "entry": "api", "name": "simproj", "files": {},
            "net": net, "steps": steps}


MYFMT_MODULE = """from naunet.network import define_reaction
from naunet.reactions.reaction import Reaction
from naunet.reactiontype import ReactionType


@define_reaction("{name}")
class ProjectReaction(Reaction):
    \"\"\"Project-specific text format: 'reactants;products;alpha;beta'\"\"\"

    def __init__(self, react_string):
        super().__init__(react_string=react_string)

    def _parse_string(self, react_string):
        self.source = "{name}"
        r, p, a, b = react_string.strip().split(";")
        self.reactants = [self._create_species(x) for x in r.split() if self._create_species(x)]
        self.products = [self._create_species(x) for x in p.split() if self._create_species(x)]
        self.alpha = float(a) * {scale}
        self.beta = float(b)
        self.reaction_type = ReactionType.GAS_TWOBODY
"""


def fam_cli_loads(rng, idx):
    """A project that brings its own reaction format in a Python module listed under `loads`."""
    name = ["myfmt", "myfmt", "labfmt"][idx % 3]  # two projects may pick the same format name
    scale = [1.0, 2.0, 1.0][idx % 3]
    reacs = [("H H", "H2"), ("C O", "CO"), ("O H2", "H2O"), ("O O", "O2"), ("H O", "OH"), ("C+ e-", "C"), ("H+ e-", "H")]
    rng.shuffle(reacs)
    reacs = reacs[: rng.randint(3, 6)]
    content = "".join(f"{r};{p};{(i + 1) * 1.7e-11!r};{-0.5 if i % 2 else 0.0}\n" for i, (r, p) in enumerate(reacs))
    net = dict(MIXED)
    cli = {"files": [f"net.{name}"], "formats": [name], "loads": ["projectformat.py"]}
    cli["solver"], cli["method"], cli["device"] = rng.choice(METHODS)
    steps = [{"s": "cli_render"}] + ([{"s": "cli_render"}] if rng.random() < 0.6 else [])
    return {"id": f"cli-loads-{name}-{idx}", "family": f"cli-loads-{name}", "entry": "cli", "name": "simproj",
            "files": {f"net.{name}": content, "projectformat.py": MYFMT_MODULE.format(name=name, scale=scale)},
            "net": net, "cli": cli, "steps": steps}


def fam_empty(rng, idx):
    lists = rng.choice([MIXED, UPPER, {"elements": ["H", "C"], "pseudo_elements": []}])
    return {"id": f"api-empty-{idx}", "family": "api-empty", "entry": "api", "name": "simproj", "files": {},
            "net": dict(lists), "steps": [{"s": "new"}] + api_tail(rng, 0, can_edit=False)}


MINIMAL = {"elements": ["e", "H", "C", "O"], "pseudo_elements": ["CR"]}
UCL_LISTS = {"elements": list(UCL_ELEMENTS), "pseudo_elements": ["CR", "CRP", "PHOTON", "CRPHOT"]}


def fam_random(rng, idx):
    """Mix-and-match description: every dimension that touches process-global or shared state is
    drawn independently (element-list style, text formats - possibly two in one network -, ice
    block, grain model, grain species, cooling, required/allowed species, modifiers, shielding,
    API or CLI entry with replacement table / binding energies).  Combinations naunet cannot
    render alone are discarded by the reference run and counted as unusable."""
    style = rng.choice(["mixed", "mixed", "upper", "ucl", "minimal"])
    cfg = "upper" if style in ("upper", "ucl") else ("minimal" if style == "minimal" else "mixed")
    lists = {"mixed": MIXED, "upper": UPPER, "ucl": UCL_LISTS, "minimal": MINIMAL}[style]
    net = {"elements": list(lists["elements"]), "pseudo_elements": list(lists["pseudo_elements"])}
    sp = W.CONFIGS[cfg]["spell"]
    files, fsteps, names = {}, [], []
    nreac = 0
    nfiles = rng.choice([1, 1, 2])
    fmts = [f for f in ["naunet", "kida", "umist", "krome"] if not (cfg == "minimal" and f == "umist")]
    for k in range(nfiles):
        fmt = rng.choice(fmts)
        ars = pool_lines(rng, cfg, rng.randint(2, 7), fmt)
        if not ars:
            continue
        for i, ar in enumerate(ars):
            ar["alpha"] = round((k * 10 + i + 1) * 1.3e-10, 13)
        fname = f"part{k}.{fmt}"
        files[fname] = "".join(W.encode(cfg, ar, fmt, 100 * k + i) + "\n" for i, ar in enumerate(ars))
        fsteps.append([fname, fmt])
        nreac += len(ars)
        for x in species_names(cfg, ars):
            if x not in names:
                names.append(x)
    has_ice = cfg != "minimal" and rng.random() < 0.35
    model = ""
    if has_ice:
        model = rng.choice(["hh93", "rr07x"])
        ice = [(["CO"], ["#CO"], 200), (["#CO"], ["CO"], 201), (["H2O"], ["#H2O"], 200), (["#H2O"], ["H2O"], 201)]
        rng.shuffle(ice)
        ice = ice[: rng.randint(2, 4)]
        if model == "hh93" and style == "mixed" and rng.random() < 0.5:
            ice += [(["e-", "GRAIN0"], ["GRAIN-"], 221), (["C+", "GRAIN-"], ["C", "GRAIN0"], 220)]
        lines = []
        for i, (R, P, t) in enumerate(ice):
            R = [sp.get({"e-": "E"}.get(x, x), x) if x in ("e-",) else x for x in R]
            Rf = (R + [""] * 3)[:3]
            Pf = (P + [""] * 5)[:5]
            lines.append(",".join([str(500 + i)] + Rf + Pf + [repr(round((i + 3) * 1.1e-11, 13)), "0.0", "0.0", "10.0", "-1.0", str(t), "sim"]))
            for x in R + P:
                if x not in names:
                    names.append(x)
        files["ice.naunet"] = "\n".join(lines) + "\n"
        fsteps.append(["ice.naunet", "naunet"])
        nreac += len(ice)
        net["grain_model"] = model
    if style == "mixed" and rng.random() < 0.3:
        block = [(["H", "e-"], ["H+", "e-", "e-"]), (["H+", "e-"], ["H"]), (["He", "e-"], ["He+", "e-", "e-"]), (["He+", "e-"], ["He"])]
        block = block[: rng.choice([2, 4])]
        lines = []
        for i, (R, P) in enumerate(block):
            lines.append(",".join([str(700 + i)] + (R + [""] * 3)[:3] + (P + [""] * 5)[:5] + [repr(round((i + 1) * 2.3e-11, 13)), "-0.5", "0.0", "10.0", "41000.0", "100", "sim"]))
            for x in R + P:
                if x not in names:
                    names.append(x)
        files["thermal.naunet"] = "\n".join(lines) + "\n"
        fsteps.append(["thermal.naunet", "naunet"])
        nreac += len(block)
        net["cooling"] = [c for c, need in COOLING_NEEDS.items() if all(n in names for n in need) and rng.random() < 0.7]
    if rng.random() < 0.25 and not net.get("cooling"):
        net["allowed_species"] = [x for x in names if rng.random() < 0.85] or list(names)
    elif rng.random() < 0.4:
        he = sp.get("He", "He")
        cand = [x for x in (he, he + "+", "N", "D", "D+") if x not in names and not (cfg == "minimal")]
        if len(cand) >= 2:
            net["required_species"] = rng.sample(cand, 2)
    if rng.random() < 0.25:
        net["rate_modifier"] = {str(rng.randrange(0, 5)): "3.0e-10 * zeta"}
    if rng.random() < 0.25 and len(names) >= 2 and not net.get("allowed_species"):
        a, b = rng.sample(names, 2)
        net["ode_modifier"] = {a: {"factors": ["-2.0e-17 * nH"], "reactants": [[b]]}}
    if rng.random() < 0.2:
        net["shielding"] = rng.choice([{"H2": "L96Table"}, {"CO": "V09Table"}, {"CO": "VB88Table"}, {"N2": "L13Table"}])
    entry = "cli" if rng.random() < 0.3 else "api"
    fam = f"rnd-{style}-{'ice' if has_ice else 'gas'}-{entry}"
    if entry == "cli":
        cli = {"files": [f for f, _ in fsteps], "formats": [m for _, m in fsteps]}
        cli["solver"], cli["method"], cli["device"] = rng.choice(METHODS)
        if style in ("upper", "ucl") and rng.random() < 0.6:
            cli["replacement"] = rng.choice([dict(UCL_REPLACEMENT), {"HE": "He"}, {"E": "e", "HE": "He"}])
        if has_ice and rng.random() < 0.6:
            cli["binding_energy"] = {"#CO": float(rng.choice([855, 1300, 2222])), "#H2O": float(rng.choice([4800, 5600]))}
            if rng.random() < 0.4:
                cli["photon_yield"] = {"#CO": 0.05}
        steps = [{"s": "cli_render", "pattern": rng.random() < 0.2}] + ([{"s": "cli_render"}] if rng.random() < 0.4 else [])
        return {"id": f"{fam}-{idx}", "family": fam, "entry": "cli", "name": "simproj", "files": files, "net": net, "cli": cli, "steps": steps}
    steps = []
    if rng.random() < 0.5:
        steps.append({"s": "new", "files": fsteps})
    else:
        steps.append({"s": "new"})
        steps += [{"s": "add_file", "file": f, "fmt": m} for f, m in fsteps]
    if not net.get("allowed_species") and rng.random() < 0.5:
        fmt2 = rng.choice([f for f in fmts if f != "krome"])
        ar = dict(pool_lines(rng, cfg, 1, fmt2)[0], alpha=9.1e-11)
        steps.append({"s": "add_str", "line": W.encode(cfg, ar, fmt2, 900) + "\n", "fmt": fmt2})
        nreac += 1
    steps += api_tail(rng, nreac, can_edit=not (net.get("ode_modifier") or net.get("allowed_species") or net.get("cooling")),
                      can_export=not net.get("rate_modifier"))
    for st in steps:
        if st["s"] == "touch" and names:
            st["where"] = rng.choice(names)
    return {"id": f"{fam}-{idx}", "family": fam, "entry": "api", "name": "simproj", "files": files, "net": net, "steps": steps}


def perturb_ops(d):
    """The perturbations that apply to description d, the specific ones first."""
    n = d["net"]
    ops = []
    if any(f.endswith(".krome") for f in d.get("files", {})):
        ops += ["krome_directive", "krome_case"]
    if d["entry"] == "cli":
        ops += ["binding", "replacement", "yield"]
    if n.get("grain_model"):
        ops += ["set_eb", "grain_model"]
    if any(st["s"] == "add_inst" for st in d["steps"]):
        ops += ["int_float_temps"]
    if n.get("cooling"):
        ops += ["cooling_subset"]
    if n.get("elements"):
        ops += ["elements_order"]
    if n.get("pseudo_elements"):
        ops += ["pseudo_variant"]
    ops += ["coefficient", "elements_extra", "required", "shielding", "rate_modifier"]
    return ops


def perturb(rng, d, k, op=None):
    """A near twin of description d: the same script with ONE small thing changed that lives in, or
    is looked up through, process-wide or shared state.  Pairs (d, twin) are what collides on
    caches with lossy keys, leaked tables and aliased objects.  Sloppy on purpose: a twin naunet
    cannot render alone is discarded by the reference run."""
    import copy
    import re

    t = copy.deepcopy(d)
    n, c = t["net"], t.setdefault("cli", {}) if t["entry"] == "cli" else t.get("cli", {})
    if op is None:
        op = rng.choice(perturb_ops(t))
    files = t.get("files", {})
    if op == "coefficient" and files:
        # change the first number that looks like a rate coefficient in one data line
        name = rng.choice(sorted(files))
        lines = files[name].split("\n")
        idxs = [i for i, ln in enumerate(lines) if ln and not ln.startswith(("#", "@", "from ", "import ", "class ", " ", "def "))]
        if idxs:
            i = rng.choice(idxs)
            lines[i] = re.sub(r"(\d\.\d+)([eEdD][-+]?\d+)", lambda m: f"{float(m.group(1)) + 1.0:.3f}{m.group(2)}", lines[i], count=1)
            files[name] = "\n".join(lines)
    elif op == "krome_case":
        name = next(f for f in sorted(files) if f.endswith(".krome"))
        swap = rng.choice([("e-", "E-"), ("d-", "e-"), ("exp(", "EXP("), ("sqrt(", "SQRT("), ("E-", "e-")])
        lines = files[name].split("\n")
        out = []
        for ln in lines:
            if ln and not ln.startswith(("#", "@")) and "," in ln:
                head, _, rate = ln.rpartition(",")
                rate = re.sub(r"(\d)" + re.escape(swap[0][0]) + r"(-?\d)", lambda m: m.group(1) + swap[1][0] + m.group(2), rate) \
                    if len(swap[0]) == 2 and swap[0][1] == "-" else rate.replace(swap[0], swap[1])
                ln = head + "," + rate
            out.append(ln)
        files[name] = "\n".join(out)
    elif op == "krome_directive":
        name = next(f for f in sorted(files) if f.endswith(".krome"))
        files[name] = "@common:user_extra\n" + files[name]
    elif op == "binding":
        be = dict(c.get("binding_energy") or {})
        if be and rng.random() < 0.4:
            be.pop(sorted(be)[0])
        else:
            be["#CO"] = float(rng.choice([855, 1300, 1575, 2222]))
        c["binding_energy"] = be
    elif op == "yield":
        c["photon_yield"] = {} if c.get("photon_yield") else {"#CO": 0.07}
    elif op == "replacement":
        cur = c.get("replacement") or {}
        c["replacement"] = rng.choice([x for x in ({}, {"HE": "He"}, dict(UCL_REPLACEMENT), {"E": "e", "HE": "He"}) if x != cur])
    elif op == "grain_model":
        n["grain_model"] = {"hh93": "rr07x", "rr07x": "hh93", "rr07": "rr07x"}.get(n["grain_model"], "hh93")
    elif op == "set_eb":
        pre = (n.get("species_kwargs") or {}).get("surface_prefix", "#")
        pos = next((i for i, st in enumerate(t["steps"]) if st["s"] in RENDER_KINDS), len(t["steps"]))
        t["steps"].insert(pos, {"s": "set_eb", "values": {pre + "CO": float(rng.choice([855, 1575])), pre + "H2O": 4800.0}})
    elif op == "cooling_subset":
        n["cooling"] = n["cooling"][:-1] or n["cooling"]
    elif op == "elements_order":
        n["elements"] = list(reversed(n["elements"]))
    elif op == "int_float_temps":
        for st in t["steps"]:
            if st["s"] == "add_inst":
                for key in ("tmin", "tmax"):
                    v = st.get(key, -1.0)
                    st[key] = int(v) if isinstance(v, float) and v == int(v) else float(v)
    elif op == "pseudo_variant":
        n["pseudo_elements"] = n["pseudo_elements"] + [rng.choice(["XRAY", "M", "g", "X"])]
    elif op == "elements_extra":
        if n.get("elements"):
            n["elements"] = n["elements"] + [rng.choice(["S", "Si", "Mg", "Fe", "Cl"])]
    elif op == "required":
        n["required_species"] = (n.get("required_species") or []) + ["N"]
        if n.get("allowed_species"):
            n["allowed_species"] = n["allowed_species"] + ["N"]
    elif op == "shielding":
        # (every table the templates know: the method number behind a table differs between them)
        tables = [{"CO": "V09Table"}, {"CO": "VB88Table"}, {"H2": "L96Table"}, {"CO": "VB88Table", "H2": "L96Table"},
                  {"N2": "L13Table", "CO": "V09Table"}][(K.hash64(d["id"]) + k) % 5]
        tables = {sp: tb for sp, tb in tables.items() if tb in KNOWN_SHIELDING.get(sp, ())} or {"H2": "L96Table"}
        if t["entry"] == "api" and rng.random() < 0.5:
            pos = next((i for i, st in enumerate(t["steps"]) if st["s"] in RENDER_KINDS), len(t["steps"]))
            t["steps"].insert(pos, {"s": "shielding_inplace", "values": tables})
        else:
            n["shielding"] = dict(n.get("shielding") or {}, **tables)
    elif op == "rate_modifier":
        rm = dict(n.get("rate_modifier") or {})
        rm[str(rng.choice([0, 1, 10, 11]))] = "7.0e-11 * zeta"
        n["rate_modifier"] = rm
        t["steps"] = [st for st in t["steps"] if st["s"] != "export"] or t["steps"]
    t["id"] = f"{d['id']}~t{k}"
    t["family"] = d["family"] + "~tw"
    t["near_twin_of"] = d["id"]
    t["perturbation"] = op
    return t


def pinned_descriptions():
    """Two fixed descriptions (no random choices) that carry the features earlier misses were traced
    to and that the random families only have with some probability."""
    kida = [
        "C          CH                     H          C2                                            2.400e-10  0.000e+00  0.000e+00 2.00e+00 1.00e+02 logn  4     10    300  3    10 1  1",
        "H          C2                     C          CH                                            4.670e-10  5.000e-01  3.040e+04 2.00e+00 0.00e+00 logn  4     10    800  3    11 1  1",
        "C          O                      CO                                                       1.100e-10  0.000e+00  0.000e+00 2.00e+00 0.00e+00 logn  4     10  41000  3    12 1  1",
        "CO         CR                     C          O                                             5.000e+00  0.000e+00  0.000e+00 2.00e+00 0.00e+00 logn  1     10  41000  1    13 1  1",
        "H          H                      H2                                                       1.000e-17  5.000e-01  0.000e+00 2.00e+00 0.00e+00 logn  4     10  41000  3    14 1  1",
    ]
    r_dense = {"s": "render", "solver": "cvode", "method": "dense", "device": "cpu", "pattern": False}
    p1 = {"id": "pinned-edit-chain-0", "family": "pinned-edit-chain", "entry": "api", "name": "simproj",
          "files": {"net.kida": "\n".join(kida) + "\n"},
          "net": dict(MIXED, required_species=["He", "He+"], ode_modifier={"H2": {"factors": ["-1.0e-17 * nH"], "reactants": [["H"]]}}),
          "steps": [{"s": "new"}, {"s": "add_file", "file": "net.kida", "fmt": "kida"}, {"s": "touch", "where": "C2"}, dict(r_dense),
                    {"s": "rm_idx", "i": 0}, dict(r_dense, inplace=True),
                    {"s": "add_str", "fmt": "kida", "line": "O          H2                     OH         H                                             3.300e-11  0.000e+00  0.000e+00 2.00e+00 0.00e+00 logn  4     10  41000  3    16 1  1\n"},
                    {"s": "add_inst", "R": ["CH", "O"], "P": ["CO", "H"], "pseudo": [], "alpha": 4.4e-11, "rtype": 100, "idx": 15},
                    {"s": "export", "solver": "cvode", "method": "sparse", "device": "cpu"},
                    {"s": "export", "solver": "cvode", "method": "sparse", "device": "cpu"}]}
    steps = [{"s": "new"}]
    for i, (R, P, t) in enumerate([(["H", "H"], ["H2"], 100), (["C", "O"], ["CO"], 100), (["O", "H2"], ["H2O"], 100), (["O", "O"], ["O2"], 100)]):
        steps.append({"s": "add_inst", "R": R, "P": P, "pseudo": [], "alpha": round((i + 1) * 1.3e-10, 13), "rtype": t, "idx": -1})
    steps += [{"s": "shielding_inplace", "values": {"H2": "L96Table"}},
              {"s": "render", "solver": "cvode", "method": "sparse", "device": "cpu", "pattern": True},
              {"s": "write", "fmt": "naunet"}, {"s": "rm_idx", "i": 0},
              {"s": "render", "solver": "cvode", "method": "sparse", "device": "cpu", "pattern": True, "inplace": True},
              {"s": "to_code", "solver": "odeint", "method": "rosenbrock4", "device": "cpu"}]
    p2 = {"id": "pinned-noindex-0", "family": "pinned-noindex", "entry": "api", "name": "simproj", "files": {},
          "net": dict(MIXED, rate_modifier={"2": "2.5e-10 * zeta"}), "steps": steps}
    # a network observed too early: helium cooling is requested but helium arrives later.  The first
    # rendering fails on the unchanged code (and leaves the network alone); whatever it does, the
    # rendering after the helium reactions must equal the one of the script without the early attempt.
    def line(i, R, P):
        return ",".join([str(i)] + (R + [""] * 3)[:3] + (P + [""] * 5)[:5] + [repr(round((i + 1) * 1.7e-11, 13)), "-0.5", "0.0", "10.0", "41000.0", "100", "sim"])

    hyd = [(["H", "e-"], ["H+", "e-", "e-"]), (["H+", "e-"], ["H"])]
    hel = [(["He", "e-"], ["He+", "e-", "e-"]), (["He+", "e-"], ["He"])]
    r3 = {"s": "render", "solver": "cvode", "method": "dense", "device": "cpu", "pattern": False}
    p3 = {"id": "pinned-early-look-0", "family": "pinned-early-look", "entry": "api", "name": "simproj", "solo_only": True,
          "expect_unusable": True,
          "files": {"h.naunet": "\n".join(line(i, R, P) for i, (R, P) in enumerate(hyd)) + "\n",
                    "he.naunet": "\n".join(line(i + 2, R, P) for i, (R, P) in enumerate(hel)) + "\n"},
          "net": {"elements": ["e", "H", "D", "He"], "pseudo_elements": ["Photon"], "cooling": ["CIC_HI", "RC_HII", "CIC_HeI", "RC_HeI"]},
          "steps": [{"s": "new"}, {"s": "add_file", "file": "h.naunet", "fmt": "naunet"}, dict(r3),
                    {"s": "add_file", "file": "he.naunet", "fmt": "naunet"}, dict(r3), {"s": "to_code", "solver": "cvode", "method": "sparse", "device": "cpu"}]}
    # a partially indexed network (file reactions carry their file index, hand-made ones do not)
    # with a rate modifier, rendered repeatedly and through several entry points
    r4 = {"s": "render", "solver": "cvode", "method": "sparse", "device": "cpu", "pattern": False}
    p4 = {"id": "pinned-partial-index-0", "family": "pinned-partial-index", "entry": "api", "name": "simproj",
          "files": {"net.kida": "\n".join(kida) + "\n"},
          "net": dict(MIXED, rate_modifier={"11": "3.3e-10 * zeta", "13": "4.4e-17"}),
          "steps": [{"s": "new"}, {"s": "add_file", "file": "net.kida", "fmt": "kida"},
                    {"s": "add_inst", "R": ["CH", "O"], "P": ["CO", "H"], "pseudo": [], "alpha": 4.4e-11, "rtype": 100, "idx": -1},
                    {"s": "add_inst", "R": ["O", "H2"], "P": ["OH", "H"], "pseudo": [], "alpha": 5.5e-11, "rtype": 100, "idx": -1},
                    dict(r4), dict(r4), {"s": "to_code", "solver": "odeint", "method": "rosenbrock4", "device": "cpu"}, dict(r4, inplace=True)]}
    # built without an allowed list, then narrowed through the setter (three reactions drop out, the
    # number of partners of the surviving species changes), then rendered: must equal the network
    # constructed with that list (the `~ctor` variant built from this description)
    steps5 = [{"s": "new"}]
    for i, (R, P) in enumerate([(["H", "H"], ["H2"]), (["C", "O"], ["CO"]), (["O", "H"], ["OH"]), (["OH", "H"], ["H2O"]),
                                (["CO", "H"], ["HCO"]), (["C", "H"], ["CH"]), (["CH", "O"], ["CO", "H"]), (["CH", "H"], ["C", "H2"])]):
        steps5.append({"s": "add_inst", "R": R, "P": P, "pseudo": [], "alpha": round((i + 1) * 1.1e-10, 13), "rtype": 100, "idx": i + 1})
    steps5 += [{"s": "set_allowed", "names": ["H", "H2", "C", "O", "CO", "OH", "H2O", "HCO"]},
               {"s": "render", "solver": "cvode", "method": "dense", "device": "cpu", "pattern": False},
               {"s": "to_code", "solver": "cvode", "method": "sparse", "device": "cpu"}]
    p5 = {"id": "pinned-narrowed-0", "family": "pinned-narrowed", "entry": "api", "name": "simproj", "files": {},
          "net": dict(MIXED), "steps": steps5}
    # continued from a pickle written by another interpreter, then extended with species it already has
    p6 = {"id": "pinned-repickled-0", "family": "pinned-repickled", "entry": "api", "name": "simproj",
          "files": {"net.kida": "\n".join(kida) + "\n"}, "net": dict(MIXED, required_species=["He"]),
          "steps": [{"s": "new"}, {"s": "add_file", "file": "net.kida", "fmt": "kida"}, {"s": "repickle", "hashseed": 777},
                    {"s": "add_inst", "R": ["CH", "O"], "P": ["CO", "H"], "pseudo": [], "alpha": 4.4e-11, "rtype": 100, "idx": 15},
                    {"s": "add_str", "fmt": "kida", "line": "O          H2                     OH         H                                             3.300e-11  0.000e+00  0.000e+00 2.00e+00 0.00e+00 logn  4     10  41000  3    16 1  1\n"},
                    {"s": "render", "solver": "cvode", "method": "sparse", "device": "cpu", "pattern": False}]}
    # an aggressor whose rendering FAILS (a misspelt grain model on a network with an ice species) after
    # its network was built under a replacement table: whatever the failure leaves behind must not reach
    # the networks built afterwards.  Its own renderings raise in the solo reference as well (expected).
    p7 = {"id": "pinned-failing-render-0", "family": "pinned-failing-render", "entry": "api", "name": "simproj",
          "expect_unusable": True, "aggressor_ok": True, "files": {},
          "net": dict(UPPER, grain_model="hh39"),
          "steps": [{"s": "new", "replacement": {"E": "e", "HE": "He"}},
                    {"s": "add_inst", "R": ["HE", "CR"][:1], "P": ["HE+", "E-"], "pseudo": ["CR"], "alpha": 0.5, "rtype": 101, "idx": 1},
                    {"s": "add_inst", "R": ["CO"], "P": ["#CO"], "pseudo": [], "alpha": 1.0, "rtype": 200, "idx": 2},
                    {"s": "add_inst", "R": ["#CO"], "P": ["CO"], "pseudo": [], "alpha": 1.0, "rtype": 201, "idx": 3},
                    {"s": "render", "solver": "cvode", "method": "dense", "device": "cpu", "pattern": False},
                    {"s": "to_code", "solver": "cvode", "method": "sparse", "device": "cpu"}]}
    # an ice network that is rendered before its grain charge states arrive (the grain density is a free
    # parameter without them and a derived sum with them)
    r8 = {"s": "render", "solver": "cvode", "method": "dense", "device": "cpu", "pattern": False}
    p8 = {"id": "pinned-grains-later-0", "family": "pinned-grains-later", "entry": "api", "name": "simproj", "files": {},
          "net": dict(MIXED, grain_model="hh93"),
          "steps": [{"s": "new"},
                    {"s": "add_inst", "R": ["C", "O"], "P": ["CO"], "pseudo": [], "alpha": 1.1e-10, "rtype": 100, "idx": -1, "tmin": 10.0, "tmax": -1.0},
                    {"s": "add_inst", "R": ["CO"], "P": ["#CO"], "pseudo": [], "alpha": 1.0, "rtype": 200, "idx": -1, "tmin": 10.0, "tmax": -1.0},
                    {"s": "add_inst", "R": ["#CO"], "P": ["CO"], "pseudo": [], "alpha": 1.0, "rtype": 201, "idx": -1, "tmin": 10.0, "tmax": -1.0},
                    dict(r8),
                    {"s": "add_inst", "R": ["e-", "GRAIN0"], "P": ["GRAIN-"], "pseudo": [], "alpha": 1.0, "rtype": 221, "idx": -1, "tmin": 10.0, "tmax": -1.0},
                    {"s": "add_inst", "R": ["C+", "GRAIN-"], "P": ["C", "GRAIN0"], "pseudo": [], "alpha": 1.0, "rtype": 220, "idx": -1, "tmin": 10.0, "tmax": -1.0},
                    dict(r8), {"s": "to_code", "solver": "cvode", "method": "sparse", "device": "cpu"}]}
    # host-code patch files generated between two renderings of a network whose short element list reads
    # later input differently from a longer one ("He" is H + e under e/H/C/O): the patch generator must not
    # leave anything in the network that changes how later input is parsed
    r9 = {"s": "render", "solver": "cvode", "method": "dense", "device": "cpu", "pattern": False}
    p9 = {"id": "pinned-patch-then-edit-0", "family": "pinned-patch-then-edit", "entry": "api", "name": "simproj",
          "files": {"net.kida": "\n".join(kida) + "\n"}, "net": dict(MINIMAL),
          "steps": [{"s": "new"}, {"s": "add_file", "file": "net.kida", "fmt": "kida"}, dict(r9), {"s": "enzo_patch", "device": "cpu"},
                    {"s": "add_str", "fmt": "kida", "line": "He         CR                     He+        e-                                            5.000e-01  0.000e+00  0.000e+00 2.00e+00 0.00e+00 logn  1     10  41000  1    17 1  1\n"},
                    dict(r9)]}
    return [p1, p2, p3, p4, p5, p6, p7, p8, p9]


def build_library(seed, tier):
    """~50 descriptions (quick) drawn deterministically from the families."""
    rng = K.rng_for(seed, "C17", 0, "library")
    per = 5 if tier == "quick" else 8
    lib = []
    for i in range(per):
        lib.append(fam_api_text(rng, i, "mixed", MIXED, "kida"))
        ucl_lists = {"elements": list(UCL_ELEMENTS), "pseudo_elements": ["CR", "CRP", "PHOTON", "CRPHOT"]}
        lib.append(fam_api_text(rng, i, "upper", ucl_lists if i % 2 else UPPER, rng.choice(["naunet", "umist"])))
        lib.append(fam_api_text(rng, i, "mixed", MIXED, rng.choice(["umist", "naunet"])))
        lib.append(fam_api_krome_custom(rng, i))
        lib.append(fam_cli_uclchem(rng, i, with_binding=True))
        lib.append(fam_cli_uclchem(rng, i, with_binding=False, repl=["full", "none", "partial"][i % 3]))
        lib.append(fam_cli_kida(rng, i))
        lib.append(fam_api_native_grain(rng, i, gprefix=False))
        lib.append(fam_api_native_grain(rng, i, gprefix=True))
        lib.append(fam_api_cooling(rng, i))
        if i % 2 == 0:
            lib.append(fam_api_leeds(rng, i))
        lib.append(fam_api_noindex(rng, i))
        if i < 3:
            lib.append(fam_cli_loads(rng, i))
    lib.append(fam_krome_primordial(rng, 0, "api"))
    lib.append(fam_krome_primordial(rng, 0, "cli"))
    lib.append(fam_empty(rng, 0))
    lib.append(fam_empty(rng, 1))
    for i in range(14 if tier == "quick" else 90):
        lib.append(fam_random(rng, i))
    lib += pinned_descriptions()
    # near twins, systematically: every description gets one twin per applicable perturbation
    # (thorough) or three of them, rotating through the list by its position in its family so
    # that a family as a whole carries every perturbation (quick).  Luck is not a strategy: a
    # collision needs a specific pair, and a random subset of twins misses it when the random
    # stream shifts.
    base = list(lib)
    pos = {}
    for d in base:
        ops = perturb_ops(d)
        j = pos.get(d["family"], 0)
        pos[d["family"]] = j + 1
        per = len(ops) if tier != "quick" else min(3, len(ops))
        for x in range(per):
            lib.append(perturb(rng, d, x, op=ops[(3 * j + x) % len(ops)] if tier == "quick" else ops[x]))
    # twins for the "independent of how often it is rendered" clause: the same description with
    # every rendering except the last one left out must give the same last rendering.  Twins are
    # only rendered as references (solo); they do not take part in the interleaved runs.
    twins = []
    for d in lib:
        rsteps = [i for i, st in enumerate(d["steps"]) if st["s"] in RENDER_KINDS]
        if d["entry"] == "api" and (len(rsteps) >= 2 or any(st["s"] in ("touch", "write", "enzo_patch", "repickle") for st in d["steps"])) and rsteps:
            keep = [st for i, st in enumerate(d["steps"]) if (st["s"] not in RENDER_KINDS and st["s"] not in ("touch", "write", "enzo_patch", "repickle")) or i == rsteps[-1]]
            twins.append(dict(d, id=d["id"] + "~last", steps=keep, twin_of=d["id"]))
    # sibling variants (solo only, like the twins above): the same script with a SECOND network
    # built from the first one's reactions and edited / rendered just before the last rendering.
    # Their last rendering must equal that of the description without the sibling.
    sibs = []
    pos = {}
    for d in base:
        j = pos.get(d["family"], 0)
        pos[d["family"]] = j + 1
        rsteps = [i for i, st in enumerate(d["steps"]) if st["s"] in RENDER_KINDS]
        if d["entry"] != "api" or not rsteps or (tier == "quick" and j % 2):
            continue
        how = ["same_list", "copy"][(j // 2) % 2] if tier == "quick" else None
        for h in ([how] if how else ["same_list", "copy"]):
            ins = [{"s": "sib_new", "how": h}, {"s": "sib_rm"}, {"s": "sib_add"}]
            other = {"hh93": "rr07x", "rr07x": "hh93", "rr07": "hh93"}.get(d["net"].get("grain_model"))
            if other:
                # ice networks: the sibling rates the SAME reaction objects under the other grain model first
                ins = [{"s": "sib_new", "how": h, "grain_model": other},
                       {"s": "sib_render", "solver": "cvode", "method": "dense", "device": "cpu"}]
            elif j % 3 == 0:
                ins.append({"s": "sib_render", "solver": "cvode", "method": "sparse", "device": "cpu"})
            if j % 3 == 1:
                ins.append({"s": "sib_allowed"})
            steps = d["steps"][:rsteps[-1]] + ins + d["steps"][rsteps[-1]:]
            sibs.append(dict(d, id=f"{d['id']}~sib-{h}", steps=steps, twin_of=d["id"], twin_kind="sibling"))
    # loader-reuse variants (solo only): render with a TemplateLoader the session keeps, make an
    # edit that does NOT touch the list of reactions, render again with the same loader.  The last
    # rendering must equal that of the same script without the first rendering.
    reuse = []
    pos = {}
    for d in base:
        j = pos.get(d["family"], 0)
        pos[d["family"]] = j + 1
        r = next((i for i, st in enumerate(d["steps"]) if st["s"] == "render"), None)
        if d["entry"] != "api" or r is None or (tier == "quick" and j % 2 == 0):
            continue
        n = d["net"]
        extra = next((x for x in ("N", "He", "HE", "D", "S", "O") if x in (n.get("elements") or [])
                      and x not in (n.get("required_species") or [])), None)
        edits = [{"s": "set_rate_modifier", "values": {"0": "7.7e-11", "1": "8.8e-11"}},
                 {"s": "shielding_inplace", "values": {"CO": "V09Table", "H2": "L96Table"}}]
        if extra and not n.get("allowed_species"):
            edits.insert(0, {"s": "set_required", "names": list(n.get("required_species") or []) + [extra]})
        if n.get("grain_model"):
            pre = (n.get("species_kwargs") or {}).get("surface_prefix", "#")
            edits.append({"s": "set_eb", "values": {pre + "CO": 999.0, pre + "H2O": 4321.0, pre + "O2": 777.0}})
            edits.insert(0, {"s": "set_grain_model", "model": {"hh93": "rr07x", "rr07x": "hh93", "rr07": "hh93"}[n["grain_model"]]})
        for e in ([edits[(j // 2) % len(edits)]] if tier == "quick" else edits):
            R = dict(d["steps"][r], reuse_loader=True)
            R.pop("inplace", None)
            full = dict(d, id=f"{d['id']}~reuse-{e['s']}", steps=d["steps"][:r] + [dict(R), dict(e), dict(R)], solo_only=True)
            last = dict(d, id=full["id"] + "~last", steps=d["steps"][:r] + [dict(e), dict(R)], twin_of=full["id"])
            reuse += [full, last]
    # constructor equivalents (solo only): a network built without an allowed list and narrowed
    # through the setter before its first rendering must render like the network CONSTRUCTED with
    # that list (the held reactions keep their order in this case, so the sources are comparable)
    ctor = []
    for d in base:
        sa = [i for i, st in enumerate(d["steps"]) if st["s"] == "set_allowed"]
        rsteps = [i for i, st in enumerate(d["steps"]) if st["s"] in RENDER_KINDS]
        if d["entry"] != "api" or len(sa) != 1 or not rsteps or sa[0] > rsteps[0] or d["net"].get("allowed_species"):
            continue
        if any(st["s"] in ("rm_idx", "add_inst", "add_str", "add_file") for st in d["steps"][sa[0]:]):
            continue  # (later edits would be filtered differently: keep the comparison simple)
        net2 = dict(d["net"], allowed_species=list(d["steps"][sa[0]]["names"]))
        steps2 = [st for i, st in enumerate(d["steps"]) if i != sa[0]]
        ctor.append(dict(d, id=d["id"] + "~ctor", net=net2, steps=steps2, twin_of=d["id"], twin_kind="constructor"))
    return lib + twins + sibs + reuse + ctor


RENDER_KINDS = ("render", "to_code", "cli_render", "export")
KNOWN_SHIELDING = {"H2": ("L96Table",), "CO": ("V09Table", "VB88Table"), "N2": ("L13Table",)}


def features(d):
    """Which collision-relevant features a description has (reported per library in the evidence)."""
    import json

    txt = json.dumps(d.get("files", {})) + json.dumps(d["steps"])
    n, c = d["net"], d.get("cli", {})
    f = set()
    if "GRAIN0" in txt and "GRAIN-" in txt and n.get("grain_model"):
        f.add("two_grain_charge_states")
    if n.get("grain_model"):
        f.add("grain_model_" + n["grain_model"])
    if n.get("cooling"):
        f.add("cooling")
    if c.get("replacement"):
        f.add("replacement_table")
    if d["entry"] == "cli" and n.get("elements") and any(x.isupper() and len(x) > 1 for x in n["elements"]) and not c.get("replacement"):
        f.add("upper_case_lists_without_replacement")
    if c.get("binding_energy"):
        f.add("cli_binding_energy")
    if c.get("photon_yield"):
        f.add("cli_photon_yield")
    if c.get("loads"):
        f.add("cli_loads_custom_format")
    if len(n.get("required_species") or []) >= 2:
        f.add("two_isolated_required_species")
    if n.get("allowed_species"):
        f.add("allowed_species")
    if n.get("rate_modifier"):
        f.add("rate_modifier")
    if n.get("ode_modifier"):
        f.add("ode_modifier")
    if n.get("shielding"):
        f.add("shielding")
    if (n.get("species_kwargs") or {}).get("surface_prefix") == "G":
        f.add("surface_prefix_G")
    if "@var" in txt or "@common" in txt:
        f.add("krome_var_common")
    if "@format" in txt:
        f.add("krome_format_line")
    kinds = [st["s"] for st in d["steps"]]
    rk = [i for i, k in enumerate(kinds) if k in RENDER_KINDS]
    if len(rk) >= 2:
        f.add("several_renderings")
        if any(k in ("rm_idx", "add_inst", "set_allowed") for k in kinds[rk[0]:rk[-1]]):
            f.add("edit_between_renderings")
    if any(st.get("inplace") for st in d["steps"]):
        f.add("in_place_rerender_after_edit")
    for k in ("export", "to_code", "cli_render", "touch", "add_str", "set_eb", "shielding_inplace", "write", "enzo_patch"):
        if k in kinds:
            f.add("step_" + k)
    if len(d.get("files", {})) >= 2 and d["entry"] == "api" and len({v.split(".")[-1] for v in d["files"]}) >= 2:
        f.add("two_text_formats_in_one_network")
    if all(st.get("idx", 0) == -1 for st in d["steps"] if st["s"] == "add_inst") and "add_inst" in kinds and not d.get("files"):
        f.add("reactions_without_file_index")
    return f


ESSENTIAL_FEATURES = ["two_grain_charge_states", "cooling", "replacement_table", "upper_case_lists_without_replacement",
                      "cli_binding_energy", "cli_loads_custom_format", "two_isolated_required_species", "krome_var_common",
                      "krome_format_line", "edit_between_renderings", "in_place_rerender_after_edit", "step_export",
                      "surface_prefix_G", "reactions_without_file_index", "ode_modifier", "rate_modifier", "step_add_str",
                      "step_shielding_inplace", "step_write", "step_enzo_patch"]
