"""Executor of one C17 session (a scripted user) - shared by the fresh-interpreter
reference worker and by the in-process multi-session simulator, so both drive
naunet through exactly the same calls.
"""
from __future__ import annotations

import hashlib
import os
import re
import shutil

from . import kernel as K
from . import seams

ARTEFACT_DIRS = ("include", "src", "python", "tests")
ARTEFACT_FILES = ("CMakeLists.txt", "jac_pattern.dat")
_VERSION_RE = re.compile(rb"VERSION \d\d\.\d\d")


def _canon(rel, data):
    if rel == "CMakeLists.txt":
        data = _VERSION_RE.sub(b"VERSION YY.MM", data)
    return data


def artefact(root):
    """{relative path: sha256} of the rendered tree, date carrier canonicalised."""
    out = {}
    for d in ARTEFACT_DIRS:
        base = os.path.join(root, d)
        for dp, dn, fn in os.walk(base):
            dn.sort()
            for f in sorted(fn):
                p = os.path.join(dp, f)
                rel = os.path.relpath(p, root)
                out[rel] = hashlib.sha256(_canon(rel, open(p, "rb").read())).hexdigest()
    for f in ARTEFACT_FILES:
        p = os.path.join(root, f)
        if os.path.exists(p):
            out[f] = hashlib.sha256(_canon(f, open(p, "rb").read())).hexdigest()
    return out


def artefact_digest(art):
    h = hashlib.sha256()
    for k in sorted(art):
        h.update(k.encode())
        h.update(b"\0")
        h.update(art[k].encode())
        h.update(b"\n")
    return h.hexdigest()


def toml_config(desc):
    import tomlkit

    n, c = desc["net"], desc.get("cli", {})
    kw = n.get("species_kwargs", {})
    doc = {
        "general": {"creation_time": "01/01/2024 00:00:00", "name": desc["name"], "description": desc["id"], "loads": list(c.get("loads", []))},
        "chemistry": {
            "symbol": {"grain": kw.get("grain_symbol", "GRAIN"), "surface": kw.get("surface_prefix", "#"),
                       "bulk": kw.get("bulk_prefix", "@")},
            "element": {"elements": n.get("elements") or [], "pseudo_elements": n.get("pseudo_elements") or [],
                        "replacement": c.get("replacement", {})},
            "species": {"allowed": n.get("allowed_species") or [], "required": n.get("required_species") or [],
                        "binding_energy": c.get("binding_energy", {}), "photon_yield": c.get("photon_yield", {})},
            "grain": {"model": n.get("grain_model", "")},
            "network": {"files": c.get("files", []), "formats": c.get("formats", [])},
            "thermal": {"heating": n.get("heating") or [], "cooling": n.get("cooling") or []},
            "shielding": n.get("shielding") or {},
            "rate_modifier": {str(k): v for k, v in (n.get("rate_modifier") or {}).items()},
            "ode_modifier": n.get("ode_modifier") or {},
        },
        "ODEsolver": {"solver": c.get("solver", "cvode"), "device": c.get("device", "cpu"), "method": c.get("method", "dense")},
        "summary": {},
    }
    return tomlkit.dumps(doc)


class StepFailed(Exception):
    """A naunet command reported failure through its exit status (an outcome of the system under
    test, not a problem of the simulator)."""


class Session:
    def __init__(self, desc, workdir):
        self.N = seams.install()
        self.desc = desc
        self.dir = workdir
        self.net = None
        self.pc = 0  # next step
        self.nrender = 0
        self.results = []  # per render: {"art": {...}} or {"exc": "Type"}
        shutil.rmtree(workdir, ignore_errors=True)
        os.makedirs(workdir)
        for name, content in desc.get("files", {}).items():
            with open(os.path.join(workdir, name), "w") as f:
                f.write(content)
        if desc["entry"] == "cli":
            with open(os.path.join(workdir, "naunet_config.toml"), "w") as f:
                f.write(toml_config(desc))

    # ------------------------------------------------------------------
    def done(self):
        return self.pc >= len(self.desc["steps"])

    def peek(self):
        return self.desc["steps"][self.pc]

    def install_lists(self):
        n = self.desc["net"]
        if n.get("elements") or n.get("pseudo_elements"):
            self.N.Species.set_known_elements(list(n.get("elements") or []))
            self.N.Species.set_known_pseudoelements(list(n.get("pseudo_elements") or []))

    def net_kwargs(self, with_files):
        n = self.desc["net"]
        kw = {}
        for k in ("elements", "pseudo_elements", "allowed_species", "required_species", "species_kwargs", "heating",
                  "cooling", "shielding", "grain_model", "ode_modifier"):
            if n.get(k):
                kw[k] = n[k] if not isinstance(n[k], (list, dict)) else _copy(n[k])
        if n.get("rate_modifier"):
            kw["rate_modifier"] = {int(k): v for k, v in n["rate_modifier"].items()}
        if with_files:
            kw["filelist"] = [os.path.join(self.dir, f) for f, _ in with_files]
            kw["fileformats"] = [fmt for _, fmt in with_files]
        return kw

    def step(self):
        """Execute the next step. Returns ("render", result) for render steps, else (kind, None).
        Exceptions propagate to the caller (the scheduler decides whether it was an injected fault)."""
        st = self.desc["steps"][self.pc]
        kind = st["s"]
        N = self.N
        res = None
        with seams.quiet():
            if kind == "new":
                if st.get("replacement") is not None:
                    # a script that parses its input under a replacement table (as `naunet render` does for a
                    # project) and puts the previous table back at once: atomic within this step
                    saved = N.Species._replacement
                    N.Species._replacement = dict(st["replacement"])
                    try:
                        self.net = N.Network(**self.net_kwargs(st.get("files")))
                    finally:
                        N.Species._replacement = saved
                else:
                    self.net = N.Network(**self.net_kwargs(st.get("files")))
            elif kind == "add_file":
                self.net.add_reaction_from_file(os.path.join(self.dir, st["file"]), st["fmt"])
            elif kind == "add_str":
                self.net.add_reaction((st["line"], st["fmt"]))
            elif kind == "add_inst":
                self.install_lists()  # bare constructors are ambient by design
                kw = self.desc["net"].get("species_kwargs", {})
                R = [N.Species(x, **kw) if not st.get("plain") else x for x in st["R"]] + list(st.get("pseudo", []))
                P = [N.Species(x, **kw) if not st.get("plain") else x for x in st["P"]]
                r = N.Reaction(R, P, temp_min=st.get("tmin", -1.0), temp_max=st.get("tmax", -1.0), alpha=st["alpha"],
                               beta=st.get("beta", 0.0), gamma=st.get("gamma", 0.0),
                               reaction_type=N.ReactionType(st["rtype"]), idxfromfile=st.get("idx", -1))
                self.net.add_reaction(r)
            elif kind == "rm_idx":
                self.net.remove_reaction(st["i"])
            elif kind == "set_allowed":
                self.net.allowed_species = list(st["names"])
            elif kind == "write":
                # the reactions written to a file (as `export` does for reactions.naunet): read-only in intent
                self.net.write(os.path.join(self.dir, "written_reactions.txt"), st.get("fmt", "naunet"))
            elif kind == "repickle":
                # the session is continued from a file: a helper interpreter under ANOTHER string-hash salt
                # builds the same network by the same (non-rendering) steps and pickles it; this process
                # goes on with the loaded object.  Read-only in intent.  Skipped if pickling does not work.
                import json as _json
                import pickle
                import subprocess
                import sys as _sys

                job = _json.dumps({"desc": self.desc, "upto": self.pc, "workdir": self.dir + "-pk"})
                code = "import sys;sys.path.insert(0,%r);from sim import c17_session;c17_session._repickle_child()" % K.VERIF
                try:
                    pr = subprocess.run([_sys.executable, "-c", code], input=job.encode(), capture_output=True, timeout=300,
                                        env=dict(os.environ, PYTHONHASHSEED=str(st.get("hashseed", 777)), NAUNET_REPO=K.REPO))
                    if pr.returncode == 0 and pr.stdout:
                        self.net = pickle.loads(pr.stdout)
                except (pickle.PickleError, AttributeError, TypeError, EOFError, subprocess.TimeoutExpired):
                    pass
            elif kind == "enzo_patch":
                # patch files for a host code, generated from the network (read-only in intent).  Whether
                # the patch generator supports this kind of network is not C17's business: only what it
                # leaves behind is
                from pathlib import Path

                try:
                    N.patches.patch_factory("enzo", st.get("device", "cpu"), None).render(self.net, path=Path(self.dir) / "enzo")
                except Exception as e:  # noqa: BLE001
                    if K.raised_in_harness(e):
                        raise
            elif kind == "set_grain_model":
                self.net.grain_model = st["model"]
            elif kind == "set_required":
                self.net.required_species = list(st["names"])
            elif kind == "set_rate_modifier":
                self.net.rate_modifier = {int(k): v for k, v in st["values"].items()}
            elif kind == "shielding_inplace":
                for k, v in st["values"].items():
                    self.net.shielding[k] = v
            elif kind == "set_eb":
                objs = list(self.net.reactants | self.net.products)
                for r in self.net.reaction_list:
                    objs += r.reactants + r.products
                for sp in objs:
                    if sp.name in st["values"]:
                        sp.binding_energy = st["values"][sp.name]
            elif kind == "sib_new":
                # a second network of the same session, built from the first one's reactions: either
                # from the very list object the first network holds or from a copy of it.  Editing
                # the sibling afterwards must not change what the first network renders.
                src = self.net.reaction_list if st.get("how") == "same_list" else list(self.net.reaction_list)
                kw = self.net_kwargs(None)
                if st.get("grain_model"):
                    kw["grain_model"] = st["grain_model"]  # the same reactions under another grain model
                self.sib = N.Network(reactions=src, **kw)
            elif kind == "sib_rm":
                if self.sib.reaction_list:
                    self.sib.remove_reaction(0)
            elif kind == "sib_add":
                if self.net.reaction_list:
                    import copy

                    r = copy.copy(self.net.reaction_list[0])  # same class (KROME rates live in the instance)
                    r.alpha = 9.9e-10
                    self.sib.add_reaction(r)
            elif kind == "sib_allowed":
                if self.net.reaction_list:
                    r0 = self.net.reaction_list[-1]
                    self.sib.allowed_species = sorted({sp.name for sp in r0.reactants + r0.products})
            elif kind == "sib_render":
                out = os.path.join(self.dir, "sib_out")
                shutil.rmtree(out, ignore_errors=True)
                try:
                    self.sib.to_code(solver=st["solver"], method=st["method"], device=st["device"], path=out)
                except Exception as e:  # noqa: BLE001 - whether the sibling can be rendered is not the point
                    if K.raised_in_harness(e):
                        raise
            elif kind == "touch":
                # read-only inspection, as in a notebook
                _ = [s.alias for s in self.net.species]
                _ = [str(r) for r in self.net.reaction_list[:3]]
                _ = self.net.find_source_sink()
                if st.get("where"):
                    _ = self.net.where_species(st["where"])
            elif kind == "render":
                out = os.path.join(self.dir, f"out{self.nrender}")
                key = (st["solver"], st["method"], st["device"], bool(st.get("pattern")))
                if st.get("inplace") and getattr(self, "_last_render", None) and self._last_render[0] == key:
                    out = self._last_render[1]  # the user re-renders into the directory of the previous render
                else:
                    shutil.rmtree(out, ignore_errors=True)
                self._last_render = (key, out)
                if st.get("reuse_loader"):
                    # the user keeps one TemplateLoader per back-end and renders with it again
                    loaders = self.__dict__.setdefault("_loaders", {})
                    tl = loaders.get(key[:3]) or loaders.setdefault(key[:3], N.templateloader.TemplateLoader(st["solver"], st["method"], st["device"]))
                else:
                    tl = N.templateloader.TemplateLoader(st["solver"], st["method"], st["device"])
                from pathlib import Path

                os.makedirs(out, exist_ok=True)
                tl.render(self.desc["name"], self.net, path=Path(out), save=True, jac_pattern=bool(st.get("pattern")))
                res = {"art": artefact(out)}
            elif kind == "to_code":
                out = os.path.join(self.dir, f"out{self.nrender}")
                shutil.rmtree(out, ignore_errors=True)
                self.net.to_code(solver=st["solver"], method=st["method"], device=st["device"], path=out)
                res = {"art": artefact(out)}
            elif kind == "export":
                # Network.export(): network file + config + sources + generic test programs
                # an older export with the SAME request is overwritten in place (overwrite=True); after a
                # different back-end the directory is cleared first - files of the other back-end that
                # naunet simply does not touch are leftovers on disk, not output of this rendering
                key = (st["solver"], st["method"], st["device"])
                if getattr(self, "_last_export", None) != key:
                    shutil.rmtree(os.path.join(self.dir, "exported", self.desc["name"]), ignore_errors=True)
                self._last_export = key
                os.makedirs(os.path.join(self.dir, "exported"), exist_ok=True)
                self.net.export(self.desc["name"], solver=st["solver"], method=st["method"], device=st["device"],
                                prefix=os.path.join(self.dir, "exported"), overwrite=True)
                root = os.path.join(self.dir, "exported", self.desc["name"])
                art = artefact(root)
                rf = os.path.join(root, "reactions.naunet")
                if os.path.exists(rf):
                    art["reactions.naunet"] = hashlib.sha256(open(rf, "rb").read()).hexdigest()
                res = {"art": art}
            elif kind == "cli_render":
                res = {"art": self._cli_render(st)}
            else:
                raise ValueError(f"unknown step {kind}")
        self.pc += 1
        if res is not None:
            self.nrender += 1
            self.results.append(res)
            return "render", res
        return kind, None

    def _cli_render(self, st):
        from cleo.application import Application
        from cleo.testers.command_tester import CommandTester
        from naunet.console.commands.render import RenderCommand

        cwd = os.getcwd()
        os.chdir(self.dir)  # a CLI invocation is 'cd project && naunet render'
        try:
            app = Application()
            app.add(RenderCommand())
            tester = CommandTester(app.find("render"))
            args = "--force" + (" --with-pattern" if st.get("pattern") else "")
            rc = tester.execute(args)
            if rc not in (0, None):
                raise StepFailed(f"naunet render exited with {rc}: {tester.io.fetch_error()[-400:]}")
            return artefact(self.dir)
        finally:
            os.chdir(cwd)

    def skip_failed_render(self, exc):
        """Record a render step that raised (outcome is part of the artefact history)."""
        self.results.append({"exc": type(exc).__name__})
        self.nrender += 1
        self.pc += 1


def _copy(x):
    import copy

    return copy.deepcopy(x)


def _repickle_child():
    """Entry point of the helper interpreter of the `repickle` step."""
    import json as _json
    import pickle
    import sys as _sys

    job = _json.loads(_sys.stdin.buffer.read().decode())
    s = Session(job["desc"], job["workdir"])
    while s.pc < job["upto"]:
        st = s.peek()
        if st["s"] in ("render", "to_code", "export", "cli_render", "repickle", "write", "enzo_patch", "touch"):
            s.pc += 1
            continue
        s.step()
    out = pickle.dumps(s.net)
    _sys.stdout.buffer.write(out)
    _sys.stdout.buffer.flush()
    shutil.rmtree(job["workdir"], ignore_errors=True)
