"""Simulation zygote for C17: a FRESH interpreter with its own PYTHONHASHSEED that imports naunet,
takes over the seams and then only forks - pool workers, which in turn fork one child per run.
Every rendering of the interleaved runs is thereby also a rendering under another hash seed.

usage: python c17_simworker.py <payload.pickle> <tasks.pickle> <out.pickle>
tasks = {"mode": "runs", "tasks": [(lo, hi), ...]} | {"mode": "report", "viols": [...], "first_replay": n}
"""
import os
import pickle
import sys

VERIF = os.path.dirname(os.path.dirname(os.path.abspath(__file__)))
sys.path.insert(0, VERIF)

from sim import c17, kernel as K, seams  # noqa: E402


def main():
    payload = pickle.load(open(sys.argv[1], "rb"))
    job = pickle.load(open(sys.argv[2], "rb"))
    K.exit_on_term()
    seams.install()
    c17._G.update(payload["G"])
    try:
        if job["mode"] == "runs":
            parts = K.pool_map(c17._worker, job["tasks"], deadline=payload["deadline"], watchdog=900, force_pool=True)
            out = ("ok", parts)
        else:
            res = c17.report(job["viols"], [], payload["G"]["lib_by_id"], payload["lib"], payload["G"]["refs"],
                             payload["G"]["seed"], payload["G"]["scratch"], first_replay=job["first_replay"])
            out = ("ok", res)
    except K.HarnessError as e:
        out = ("harness", str(e))
    pickle.dump(out, open(sys.argv[3], "wb"))


if __name__ == "__main__":
    main()
