"""C19 - Solve integrates exactly the requested interval or reports failure.

cxxsim: the rendered naunet.cpp (and, for odeint, naunet_ode.cpp) of /repo's
current tree are compiled unmodified against a scripted mock integrator whose
solution is y(t)=y0+t.  Seeded integrator-outcome sequences (the fault space)
are fed to the driver; the oracle below is evaluated over the recorded result
of every Solve call.
"""
from __future__ import annotations

import json
import math
import os
import shutil
import subprocess
import sys

from . import kernel as K

PROP = "C19"
CXX = os.path.join(K.VERIF, "sim", "cxx")
CV_VARIANTS = ["cvode_dense", "cvode_sparse", "cvode_cusparse"]
# the same Solve template rendered for other kinds of network (no thermal equation, one species,
# no reaction at all, grain chemistry): a template condition can make it wrong for one kind only
EXTRA_VARIANTS = ["cvode_dense_plain", "cvode_dense_single", "cvode_dense_empty", "cvode_dense_grain", "cvode_sparse_grain",
                  "cvode_cusparse_plain", "odeint_plain", "odeint_single"]
VARIANTS = CV_VARIANTS + ["odeint"] + EXTRA_VARIANTS
NEQ = 5  # base variants: H, H2, H+, e- and the gas temperature
NEQV = {}  # NEQUATIONS of every variant, read from the rendered macros at build time
Y0_BASE = [0.0, 0.25, 1.5, 7.0, 3.0, 0.5, 2.5, 11.0, 0.125]


def is_odeint(v):
    return v.startswith("odeint")


def neq_of(v):
    return NEQV.get(v, NEQ)

RECOVERABLE = (-1, -2, -3, -4)
RESET = (-6,)
UNRECOVERABLE = (-5, -7, -8, -9, -10, -11, -12, -13, -14, -15, -16, -20, -21, -22, -23, -24, -25, -26, -27, -28)
REL_TOL = 1e-9
NSUB = {0: 1, 1: 10, 2: 20, 3: 30, 4: 40, 5: 50}


def flag_class(f):
    if f >= 0:
        return "ok"
    if f in RECOVERABLE:
        return "recoverable"
    if f in RESET:
        return "reset"
    return "unrecoverable"


# --------------------------------------------------------------------------
# build
# --------------------------------------------------------------------------
def build(scratch):
    """Render from the working tree and compile the four drivers."""
    out = os.path.join(scratch, "c19")
    os.makedirs(out, exist_ok=True)
    r = subprocess.run(
        [sys.executable, os.path.join(K.VERIF, "sim", "render_c19.py"), K.REPO, out],
        capture_output=True, text=True, timeout=300,
        env=dict(os.environ, PYTHONHASHSEED="0"),
    )
    if r.returncode != 0:
        raise K.HarnessError(f"render failed:\n{r.stdout}\n{r.stderr[-3000:]}")
    procs = []
    for v in VARIANTS:
        d = os.path.join(out, v)
        srcs = [os.path.join(d, "src", "naunet.cpp"), os.path.join(CXX, "driver.cpp")]
        defs = ["-DPYMODULE", "-DPYMODNAME=pymock"]
        if is_odeint(v):
            srcs += [os.path.join(d, "src", "naunet_ode.cpp"), os.path.join(d, "src", "naunet_constants.cpp"),
                     os.path.join(CXX, "mock_odeint.cpp")]
            defs += ["-DVARIANT_ODEINT"]
        else:
            srcs += [os.path.join(CXX, "mock_cvode.cpp")]
            if v.startswith("cvode_cusparse"):
                defs += ["-DNAUNET_VERIF_CUDA_SHIM"]
        cmd = ["g++", "-std=c++17", "-O1", "-w", "-I", os.path.join(d, "include"),
               "-I", os.path.join(CXX, "shim"), "-I", CXX, *defs, *srcs, "-o", os.path.join(d, "driver")]
        procs.append((v, cmd, subprocess.Popen(cmd, stdout=subprocess.PIPE, stderr=subprocess.STDOUT, text=True)))
    bins = {}
    for v, cmd, p in procs:
        o, _ = p.communicate(timeout=600)
        if p.returncode != 0:
            # a tree whose generated Solve no longer compiles against the shim is
            # a harness problem (or a C10 problem), never a C19 violation
            raise K.HarnessError(f"compile of {v} failed:\n{' '.join(cmd)}\n{o[-4000:]}")
        bins[v] = os.path.join(out, v, "driver")
    import re

    for v in VARIANTS:
        mac = open(os.path.join(out, v, "include", "naunet_macros.h")).read()
        nsp = int(re.search(r"#define NSPECIES (\d+)", mac).group(1))
        th = int(re.search(r"#define NHEATPROCS (\d+)", mac).group(1)) + int(re.search(r"#define NCOOLPROCS (\d+)", mac).group(1))
        NEQV[v] = max(1, nsp + (1 if th else 0))
    if NEQV["cvode_dense"] != NEQ:
        raise K.HarnessError("rendered NEQUATIONS of the base variant differs from the simulator's assumption")
    bins["__neq__"] = dict(NEQV)
    return bins


# --------------------------------------------------------------------------
# script generation
# --------------------------------------------------------------------------
Y0_MULT = [0.0, 0.25, 1.5, 7.0, 1e-3]
FRACS = [0.0, 1e-12, 0.5, 1 - 1e-12]
# the ladder stratum also lets a call fail after it has reached its whole target (seeded change c19z)
LADDER_FRACS = FRACS + [1.0]


def gen_dt(rng):
    r = rng.random()
    if r < 0.70:
        return 10 ** rng.uniform(-3, 17)
    if r < 0.80:
        return float(10 ** rng.randint(-3, 17))
    if r < 0.90:
        return rng.choice([1.0, 3.15576e7, 3.15576e13, 86400.0, 2.0, 0.5, 1e5 * 3.15576e7])
    return math.nextafter(float(10 ** rng.randint(-2, 16)), rng.choice([0.0, math.inf]))


def gen_frac(rng):
    r = rng.random()
    if r < 0.5:
        return rng.choice(FRACS)
    return rng.random()


def gen_cv_solve(rng, knobs, neq=NEQ):
    dt = gen_dt(rng)
    s = {
        "mode": 1 if rng.random() < knobs["p_pywrap"] else 0,
        "reset": rng.choices([0, 1, 2], weights=[6, 3, 1])[0],
        "mxsteps": rng.choice([1, 50, 500, 10000]),
        "dt": dt,
        "y0c": [rng.choice(Y0_MULT) for _ in range(neq)],
        "outcomes": [],
        "reinit_fail": [],
        "setup": [-1, 0],
    }
    kinds = knobs["kinds"]
    flags = []
    if "recoverable" in kinds:
        flags += list(RECOVERABLE) * 3
    if "reset" in kinds:
        flags += list(RESET) * 4
    if "unrecoverable" in kinds:
        flags += [rng.choice(UNRECOVERABLE)]
    if flags:
        for level in range(0, 6):
            if rng.random() >= knobs["p_fail"]:
                break
            nsub = NSUB[level]
            r = rng.random()
            if r < 0.3:
                g = 0
            elif r < 0.6:
                g = nsub - 1
            else:
                g = rng.randrange(nsub)
            s["outcomes"] += [[0, 1.0]] * g + [[rng.choice(flags), gen_frac(rng)]]
        # occasionally sprinkle extra random failures later in the script
        if rng.random() < 0.1:
            for _ in range(rng.randint(1, 3)):
                pos = rng.randrange(0, 160)
                while len(s["outcomes"]) <= pos:
                    s["outcomes"].append([0, 1.0])
                s["outcomes"][pos] = [rng.choice(flags), gen_frac(rng)]
    if flags and rng.random() < 0.12:
        # a problem on which the integrator keeps failing, whatever the step size
        s["tail"] = [rng.choice(flags), gen_frac(rng)]
    if "reinit_fail" in kinds and rng.random() < 0.5:
        s["reinit_fail"].append([rng.randint(1, 5), rng.choice([-20, -21, -22, -23])])
    if "setup_fail" in kinds and rng.random() < 0.3:
        s["setup"] = [rng.randint(0, 7), rng.choice([-20, -21, -22])]
    return s


def gen_ode_solve(rng, knobs, neq=NEQ):
    mx = rng.choice([1, 2, 5, 20, 100, 500])
    r = rng.random()
    if r < 0.15:
        n = 1
    elif r < 0.30:
        n = max(1, mx - 1)
    elif r < 0.45:
        n = mx
    elif r < 0.65:
        n = mx + 1
    elif r < 0.75:
        n = 2 * mx + 1
    else:
        n = rng.randint(1, 3 * mx + 2)
    throw_at = -1
    if "integrator_throw" in knobs["kinds"] and rng.random() < 0.3:
        throw_at = rng.randrange(n)
    return {
        "mode": 1 if rng.random() < knobs["p_pywrap"] else 0,
        "reset": rng.choices([0, 1, 2], weights=[6, 3, 1])[0],
        "mxsteps": mx,
        "dt": gen_dt(rng),
        "y0c": [rng.choice(Y0_MULT) for _ in range(neq)],
        "nsteps": n,
        "shape": rng.randrange(3),
        "throw_at": throw_at,
        "throw_kind": rng.randrange(2),
        # what a second integrate_adaptive call inside the same Solve (a retry) would need
        "nsteps2": rng.choice([1, 1, max(1, mx - 1), mx, mx + 1, rng.randint(1, 2 * mx + 1)]),
        "throw_at2": -1 if rng.random() < 0.8 else 0,
    }


ALL_CV_KINDS = ["recoverable", "reset", "unrecoverable", "reinit_fail", "setup_fail"]


def gen_run(seed, index):
    """One run = one Naunet object, 1-4 Solve calls.  Pure function of (seed, index)."""
    rng = K.rng_for(seed, PROP, index)
    variant = VARIANTS[index % len(VARIANTS)]
    nsolve = rng.choices([1, 2, 3, 4], weights=[6, 2, 1, 1])[0]
    neq = neq_of(variant)
    if is_odeint(variant):
        knobs = {"p_pywrap": rng.choice([0.0, 0.3, 1.0]),
                 "kinds": [k for k in ["integrator_throw"] if rng.random() < 0.6]}
        solves = [gen_ode_solve(rng, knobs, neq) for _ in range(nsolve)]
        nsys = 1
    else:
        kinds = [k for k in ALL_CV_KINDS if rng.random() < 0.5]
        knobs = {"p_pywrap": rng.choice([0.0, 0.3, 1.0]), "kinds": kinds,
                 "p_fail": rng.choice([0.3, 0.6, 0.85, 0.97])}
        solves = [gen_cv_solve(rng, knobs, neq) for _ in range(nsolve)]
        nsys = rng.choice([1, 2, 3]) if variant.startswith("cvode_cusparse") else 1
        if nsys > 1:
            for s in solves:
                s["y0c"] = [rng.choice(Y0_MULT) for _ in range(neq * nsys)]
        if variant.startswith("cvode_cusparse"):
            # the number of systems may change wherever the user calls Reset (the first call always does)
            cur = nsys
            for k, s in enumerate(solves):
                if (k == 0 or s["reset"]) and rng.random() < 0.35:
                    cur = rng.choice([n for n in (1, 2, 3, 4, 6) if n != cur])
                if len(s["y0c"]) != neq * cur:
                    s["y0c"] = [rng.choice(Y0_MULT) for _ in range(neq * cur)]
    # overlapping lifetimes: the previous object of this driver process stays initialised during this run
    return {"variant": variant, "nsys": nsys, "solves": solves, "origin": ["seeded", seed, index],
            "overlap": 1 if rng.random() < 0.2 else 0}


def ladder_stratum():
    """Seed-independent stratum: one target fault at every (level, substep) slot,
    for every flag class and partial-progress class.  Earlier levels are made to
    fail at their first sub-step with flag -1, half-way."""
    runs = []
    flags = [-1, -2, -3, -4, -6, -5, -7, -22]
    for variant in CV_VARIANTS:
        for level in range(0, 6):
            for sub in range(1, NSUB[level] + 1):
                solves = []
                for fl in flags:
                    for fr in LADDER_FRACS:
                        outcomes = []
                        for _l in range(level):
                            outcomes.append([-1, 0.5])
                        outcomes += [[0, 1.0]] * (sub - 1) + [[fl, fr]]
                        solves.append({"mode": 0, "reset": 0, "mxsteps": 500, "dt": 3.0e10 * (1 + sub),
                                       "y0c": [0.0, 0.25, 1.5, 7.0, 3.0], "outcomes": outcomes,
                                       "reinit_fail": [], "setup": [-1, 0]})
                # 40 solves on one object: group by 4 to keep runs short
                for i in range(0, len(solves), 4):
                    runs.append({"variant": variant, "nsys": 1, "solves": solves[i:i + 4],
                                 "origin": ["ladder", level, sub, i // 4]})
        # the integrator never succeeds: one persistent flag per class, with and without progress
        for fl in (-1, -2, -3, -4, -6, -5, -9):
            for fr in (0.0, 0.5):
                runs.append({"variant": variant, "nsys": 1, "origin": ["persistent", fl, fr], "solves": [
                    {"mode": m, "reset": 0, "mxsteps": 500, "dt": 1e9, "y0c": [0.0, 0.25, 1.5, 7.0, 3.0],
                     "outcomes": [], "reinit_fail": [], "setup": [-1, 0], "tail": [fl, fr]} for m in (0, 1)]})
        # failing re-initialisation at each level, failing set-up call at each position
        for k in range(1, 6):
            outcomes = [[-1, 0.5]] * k
            runs.append({"variant": variant, "nsys": 1, "origin": ["reinit", k], "solves": [
                {"mode": m, "reset": 0, "mxsteps": 500, "dt": 1e9, "y0c": [0.0, 0.25, 1.5, 7.0, 3.0],
                 "outcomes": outcomes, "reinit_fail": [[k, -22]], "setup": [-1, 0]} for m in (0, 1)]})
        for idx in range(0, 8):
            runs.append({"variant": variant, "nsys": 1, "origin": ["setup", idx], "solves": [
                {"mode": m, "reset": 0, "mxsteps": 500, "dt": 1e9, "y0c": [0.0, 0.25, 1.5, 7.0, 3.0],
                 "outcomes": [], "reinit_fail": [], "setup": [idx, -20]} for m in (0, 1)]})
    # ladder tree: every combination of (flag, position, progress) choices for up to three
    # consecutive failing levels, then success - 16 + 256 + 4096 scripts per variant
    opts = [(fl, pos, fr) for fl in (-1, -4, -6, -5) for pos in ("first", "last") for fr in (0.0, 0.5)]
    import itertools

    for variant in ("cvode_dense", "cvode_sparse"):
        batch = []
        for depth in (1, 2, 3):
            for combo in itertools.product(opts, repeat=depth):
                outcomes = []
                for level, (fl, pos, fr) in enumerate(combo):
                    g = 0 if pos == "first" else NSUB[level] - 1
                    outcomes += [[0, 1.0]] * g + [[fl, fr]]
                batch.append({"mode": 0, "reset": 0, "mxsteps": 500, "dt": 7.5e11, "y0c": [0.0, 0.25, 1.5, 7.0, 3.0],
                              "outcomes": outcomes, "reinit_fail": [], "setup": [-1, 0]})
                if len(batch) == 4:
                    runs.append({"variant": variant, "nsys": 1, "solves": batch, "origin": ["tree", depth]})
                    batch = []
        if batch:
            runs.append({"variant": variant, "nsys": 1, "solves": batch, "origin": ["tree", 3]})
    # the other kinds of network: every one- and two-level combination, and the persistent failures
    for variant in [v for v in EXTRA_VARIANTS if not is_odeint(v)]:
        y0c = Y0_BASE[: neq_of(variant)]
        batch = []
        for depth in (1, 2):
            for combo in itertools.product(opts, repeat=depth):
                outcomes = []
                for level, (fl, pos, fr) in enumerate(combo):
                    g = 0 if pos == "first" else NSUB[level] - 1
                    outcomes += [[0, 1.0]] * g + [[fl, fr]]
                batch.append({"mode": len(batch) % 2, "reset": 0, "mxsteps": 500, "dt": 2.5e9, "y0c": list(y0c),
                              "outcomes": outcomes, "reinit_fail": [], "setup": [-1, 0]})
                if len(batch) == 4:
                    runs.append({"variant": variant, "nsys": 1, "solves": batch, "origin": ["tree-extra", depth]})
                    batch = []
        for fl in (-1, -6, -5):
            batch.append({"mode": 0, "reset": 0, "mxsteps": 500, "dt": 1e9, "y0c": list(y0c), "outcomes": [],
                          "reinit_fail": [], "setup": [-1, 0], "tail": [fl, 0.5]})
        runs.append({"variant": variant, "nsys": 1, "solves": batch, "origin": ["tree-extra", 0]})
    for variant in [v for v in EXTRA_VARIANTS if is_odeint(v)]:
        for mx in (1, 5, 100):
            for n in (mx, mx + 1, 3 * mx):
                runs.append({"variant": variant, "nsys": 1, "origin": ["budget-extra", mx, n], "solves": [
                    {"mode": m, "reset": 0, "mxsteps": mx, "dt": 1e9, "y0c": Y0_BASE[: neq_of(variant)],
                     "nsteps": n, "shape": 0, "throw_at": -1, "throw_kind": 0} for m in (0, 1)]})
    # odeint: budget boundary for every small budget, both entry points
    for mx in (1, 2, 3, 5, 20, 100, 500):
        for n in sorted({1, max(1, mx - 1), mx, mx + 1, mx + 2, 2 * mx, 10 * mx + 1}):
            for shape in (0, 1, 2):
                runs.append({"variant": "odeint", "nsys": 1, "origin": ["budget", mx, n, shape], "solves": [
                    {"mode": m, "reset": 0, "mxsteps": mx, "dt": 1e9, "y0c": [0.0, 0.25, 1.5, 7.0, 3.0],
                     "nsteps": n, "shape": shape, "throw_at": -1, "throw_kind": 0} for m in (0, 1)]})
    # cusparse: the object is initialised for n1 systems, Reset for n2, then solves (clean and failing)
    for variant in [v for v in VARIANTS if v.startswith("cvode_cusparse")]:
        neq = neq_of(variant)
        for n1 in (1, 2, 4):
            for n2 in (1, 2, 3, 6):
                for n3 in (n2, 1, 5):
                    batch = []
                    for n, reset in ((n2, 0), (n2, 0), (n3, 1), (n3, 2)):
                        for oc in ([], [[-1, 0.5]]):
                            batch.append({"mode": 0, "reset": reset, "mxsteps": 500, "dt": 1e9,
                                          "y0c": [Y0_BASE[(i + j) % len(Y0_BASE)] + j for j in range(n) for i in range(neq)],
                                          "outcomes": [list(o) for o in oc], "reinit_fail": [], "setup": [-1, 0], "tail": None})
                            reset = 0
                    runs.append({"variant": variant, "nsys": n1, "solves": batch, "origin": ["systems", n1, n2, n3]})
    # odeint: a failing first attempt (budget or integrator exception) where a second attempt,
    # if the code under test makes one, would find an easy / a hard problem
    for variant in ("odeint", "odeint_plain"):
        for mx in (5, 100):
            for n, throw_at in ((mx + 1, -1), (3, 1), (mx, mx - 1), (2 * mx, -1)):
                for n2 in (1, mx, mx + 1):
                    runs.append({"variant": variant, "nsys": 1, "origin": ["retry", mx, n, throw_at, n2], "solves": [
                        {"mode": m, "reset": 0, "mxsteps": mx, "dt": 1e9, "y0c": Y0_BASE[: neq_of(variant)],
                         "nsteps": n, "shape": 0, "throw_at": throw_at, "throw_kind": k, "nsteps2": n2, "throw_at2": -1}
                        for m in (0, 1) for k in (0, 1)]})
    return runs


def hexf(x):
    return float(x).hex()


def encode_run(rid, run):
    lines = [f"run {rid} {len(run['solves'])} {run['nsys']} {1 if run.get('overlap') else 0}"]
    for s in run["solves"]:
        y0 = [c * s["dt"] for c in s["y0c"]]
        head = f"solve {s['mode']} {s['reset']} {s['mxsteps']} {hexf(s['dt'])} {len(y0)} " + " ".join(hexf(v) for v in y0)
        if is_odeint(run["variant"]):
            tail = f"{s['nsteps']} {s['shape']} {s['throw_at']} {s['throw_kind']} {s.get('nsteps2', 1)} {s.get('throw_at2', -1)}"
        else:
            tail = f"{len(s['outcomes'])} " + " ".join(f"{o[0]} {hexf(o[1])}" for o in s["outcomes"])
            tail += f" {len(s['reinit_fail'])} " + " ".join(f"{k} {f}" for k, f in s["reinit_fail"])
            tail += f" {s['setup'][0]} {s['setup'][1]}"
            t = s.get("tail")
            tail += f" 1 {t[0]} {hexf(t[1])}" if t else " 0 0 0x0p+0"
        lines.append(head + " " + tail)
    return lines


# --------------------------------------------------------------------------
# oracle
# --------------------------------------------------------------------------
def parse_res(variant, toks):
    r = {"run": int(toks[1]), "k": int(toks[2]), "rc": int(toks[3]), "thrown": int(toks[4]),
         "other_exc": int(toks[5]), "mn": float.fromhex(toks[6]), "mx": float.fromhex(toks[7]),
         "logged": int(toks[8]), "note": int(toks[9])}
    if is_odeint(variant):
        r.update(observer_calls=int(toks[10]), steps_done=int(toks[11]), threw=int(toks[12]), calls=int(toks[13]))
    else:
        r.update(n_cvode=int(toks[10]), n_reinit=int(toks[11]), consumed=int(toks[12]), capped=int(toks[13]),
                 ill_input=int(toks[14]), reinit_failed=int(toks[15]), trace_hash=toks[16])
        ev = []
        if toks[17] != "-":
            for e in toks[17].split(","):
                lv, sb, fl = e.split(":")
                ev.append((int(lv), int(sb), int(fl)))
        r["fail_events"] = ev
    return r


def effective_mxsteps(run):
    """The step budget is set by Init/Reset only: the driver calls Reset before
    the first Solve and before every Solve whose `reset` is 1."""
    out, cur = [], None
    for k, s in enumerate(run["solves"]):
        if k == 0 or s["reset"]:
            cur = s["mxsteps"]
        out.append(cur)
    return out


def judge(variant, solve, res, mx_eff=None):
    """Return the list of violated oracle clauses for one Solve call."""
    bad = []
    dt = solve["dt"]
    advanced = abs(res["mn"] - dt) <= REL_TOL * dt and abs(res["mx"] - dt) <= REL_TOL * dt
    success = res["rc"] == 0 and not res["other_exc"]
    if success and not advanced:
        bad.append("success-without-exact-interval")
    if is_odeint(variant):
        # the steps the LAST integrate_adaptive call of this Solve needed (a retry that restores the
        # state and then stays within the budget is not a violation; the unchanged code calls once)
        need = solve["nsteps"] if res.get("calls", 1) <= 1 else solve.get("nsteps2", 1)
        if need > (mx_eff or solve["mxsteps"]) and success:
            bad.append("budget-exceeded-reported-as-success")
        return bad
    if res["capped"]:
        bad.append("call-cap-exceeded")
    setup_fired = solve["setup"][0] >= 0
    unrec = any(flag_class(f) == "unrecoverable" for _, _, f in res["fail_events"])
    if success and (unrec or res["reinit_failed"] or setup_fired):
        bad.append("unrecoverable-reported-as-success")
    if res["rc"] == 1 and not setup_fired and res["logged"] != 1:
        bad.append("initial-state-not-logged")
    return bad


# --------------------------------------------------------------------------
# execution
# --------------------------------------------------------------------------
def run_driver(binpath, lines, cwd, trace=False, timeout=600):
    try:
        p = subprocess.run([binpath] + (["trace"] if trace else []), input="\n".join(lines) + "\n",
                           capture_output=True, text=True, errors="replace", cwd=cwd, timeout=timeout)
    except subprocess.TimeoutExpired as e:
        # the driver's own watchdog did not fire (e.g. stuck in a signal-unsafe state): same verdict
        so = e.stdout.decode() if isinstance(e.stdout, bytes) else (e.stdout or "")
        return 3, so, "driver timed out"
    return p.returncode, p.stdout, p.stderr


def execute(bins, runs, workdir, trace=False):
    """Execute a list of run dicts (any variants). Returns list of per-run
    {'results': [...], 'clauses': [[...] per solve], 'hang': bool}."""
    out = [None] * len(runs)
    byvar = {}
    for i, r in enumerate(runs):
        byvar.setdefault(r["variant"], []).append(i)
    for v, idxs in byvar.items():
        cwd = os.path.join(workdir, v + "-cwd")
        os.makedirs(cwd, exist_ok=True)
        pending = list(idxs)
        while pending:
            lines = []
            for i in pending:
                lines += encode_run(i, runs[i])
            rc, so, se = run_driver(bins[v], lines, cwd, trace)
            seen = {}
            hang_at = None
            traces = {}
            lost = {}
            for ln in so.splitlines():
                t = ln.split()
                if not t:
                    continue
                if t[0] == "res":
                    try:
                        r = parse_res(v, t)
                    except (ValueError, IndexError):
                        continue  # output damaged by the code under test: the run stays incomplete
                    seen.setdefault(r["run"], []).append(r)
                elif t[0] == "trace":
                    traces.setdefault(int(t[1]), []).append(ln.split(" ", 3)[3] if len(t) > 3 else "")
                elif t[0] == "lost":
                    # lost <run whose end destroyed it> <its last solve> <run> <solve whose record is gone>
                    lost.setdefault(int(t[1]), []).append((int(t[2]), int(t[3]), int(t[4])))
                elif t[0] == "hang":
                    hang_at = int(t[1])
                elif t[0] in ("badscript", "initfail", "resetfail"):
                    raise K.HarnessError(f"driver {v}: {ln}")
            done_upto = None
            for n, i in enumerate(pending):
                rs = seen.get(i, [])
                complete = len(rs) == len(runs[i]["solves"])
                if complete:
                    out[i] = {"results": rs, "hang": False, "traces": traces.get(i, []),
                              "clauses": [judge(v, s, r, m) for s, r, m in
                                          zip(runs[i]["solves"], rs, effective_mxsteps(runs[i]))]}
                    for k, vr, vk in lost.get(i, []):
                        # the record of an earlier failing Solve (run vr, solve vk of this driver process) is
                        # no longer in the file after this run's object was finalised
                        kk = min(k, len(out[i]["clauses"]) - 1)
                        if "initial-state-record-lost" not in out[i]["clauses"][kk]:
                            out[i]["clauses"][kk].append("initial-state-record-lost")
                    done_upto = n
                else:
                    break
            nxt = (done_upto + 1) if done_upto is not None else 0
            if nxt >= len(pending):
                if rc < 0 or rc in (134, 139) or rc == 3:
                    # killed by a signal (or stuck) while shutting the objects down, after every result
                    # was printed: the generated code damaged the process (e.g. wrote out of bounds)
                    last = pending[-1]
                    cl = "hang" if rc == 3 else "crash"
                    if cl not in out[last]["clauses"][-1]:
                        out[last]["clauses"][-1].append(cl)
                elif rc != 0:
                    raise K.HarnessError(f"driver {v} exit {rc} after all results: {se[-2000:]}")
                break
            # the driver stopped inside run pending[nxt]
            i = pending[nxt]
            if hang_at == i or rc == 3:
                out[i] = {"results": seen.get(i, []), "hang": True, "traces": [],
                          "clauses": [["hang"]]}
                pending = pending[nxt + 1:]
                continue
            if rc < 0 or rc in (134, 139):
                # crash inside the generated code under a scripted fault sequence
                out[i] = {"results": seen.get(i, []), "hang": False, "crash": rc, "traces": [],
                          "clauses": [["crash"]]}
                pending = pending[nxt + 1:]
                continue
            raise K.HarnessError(f"driver {v} exit {rc}, incomplete output for run {i}: {se[-2000:]}")
    return out


def violations_of(run, res):
    v = []
    for k, cl in enumerate(res["clauses"]):
        for c in cl:
            v.append((k, c))
    return v


# --------------------------------------------------------------------------
# known findings: keyed on (variant, clause, entry point)
# --------------------------------------------------------------------------
def match_known(known, variant, mode, clause):
    for e in known:
        m = e.get("match", {})
        if m.get("variant") == variant and m.get("clause") == clause and m.get("mode", mode) == mode:
            return e
    return None


# --------------------------------------------------------------------------
# minimisation + replay
# --------------------------------------------------------------------------
def minimise(bins, workdir, run, k, clause):
    """Shrink to one Solve call and a minimal outcome list reproducing `clause`."""
    variant = run["variant"]

    def fails(cand, kk):
        r = execute(bins, [cand], workdir)[0]
        return any(c == clause for c in (r["clauses"][kk] if kk < len(r["clauses"]) else []))

    # 1. drop the other solves if the violation does not depend on them
    cand = dict(run, solves=[dict(run["solves"][k], reset=0)])
    if fails(cand, 0):
        run, k = cand, 0
    else:
        cand = dict(run, solves=run["solves"][: k + 1])
        if fails(cand, k):
            run = cand
    s = dict(run["solves"][k])

    def with_solve(ns):
        sv = list(run["solves"])
        sv[k] = ns
        return dict(run, solves=sv)

    if not is_odeint(variant):
        # 2. turn failures into successes / drop entries
        idx = [i for i, o in enumerate(s["outcomes"]) if o[0] < 0]

        def t_keep(keep):
            oc = [o if (o[0] >= 0 or i in keep) else [0, 1.0] for i, o in enumerate(s["outcomes"])]
            return fails(with_solve(dict(s, outcomes=oc)), k)

        if idx:
            keep = K.ddmin(idx, t_keep, budget=60) if t_keep(idx) else idx
            if not t_keep(keep):
                keep = idx
            if len(idx) > 0 and fails(with_solve(dict(s, outcomes=[])), k):
                keep = []
            s["outcomes"] = [o if (o[0] >= 0 or i in keep) else [0, 1.0] for i, o in enumerate(s["outcomes"])]
            while s["outcomes"] and s["outcomes"][-1][0] >= 0:
                s["outcomes"].pop()
        for field, empty in (("reinit_fail", []), ("setup", [-1, 0]), ("tail", None)):
            c2 = dict(s, **{field: empty})
            if s.get(field, empty) != empty and fails(with_solve(c2), k):
                s = c2
        # 3. simplify numbers
        for f2 in ("dt",):
            c2 = dict(s, dt=1.0e9)
            if fails(with_solve(c2), k):
                s = c2
        oc = [[o[0], 0.5 if o[0] < 0 else 1.0] for o in s["outcomes"]]
        if fails(with_solve(dict(s, outcomes=oc)), k):
            s["outcomes"] = oc
    else:
        for c2 in (dict(s, shape=0), dict(s, dt=1.0e9), dict(s, throw_at=-1)):
            c3 = dict(s, **{kk: c2[kk] for kk in c2})
            if fails(with_solve(c3), k):
                s = c3
    c2 = dict(s, y0c=Y0_BASE[: neq_of(run["variant"])] * (len(s["y0c"]) // neq_of(run["variant"])))
    if fails(with_solve(c2), k):
        s = c2
    return with_solve(s), k


def chunk_runs(kind, lo, hi, seed, ladder):
    return ladder[lo:hi] if kind == "ladder" else [gen_run(seed, i) for i in range(lo, hi)]


def scenario_fails(bins, workdir, prefix, run, k, clause):
    """Execute `prefix` runs and then `run` in ONE fresh driver process; does `clause` show on run's solve k?"""
    rs = execute(bins, list(prefix) + [run], workdir)
    r = rs[-1]
    return k < len(r["clauses"]) and clause in r["clauses"][k]


def find_prefix(bins, workdir, v, seed, ladder):
    """A violation that does not show when its run executes alone in a fresh driver process depends
    on state earlier runs left in the process (e.g. a function-local static in the generated
    code).  Find a minimal list of earlier runs of the same chunk that makes it reappear."""
    kind, lo, hi = v["chunk"]
    runs = chunk_runs(kind, lo, hi, seed, ladder)
    run = v["run"]
    prefix = [r for r in runs[: v["pos"]] if r["variant"] == run["variant"]]
    if not scenario_fails(bins, workdir, prefix, run, v["k"], v["clause"]):
        return None
    prefix = K.ddmin(prefix, lambda cand: scenario_fails(bins, workdir, cand, run, v["k"], v["clause"]), budget=80)
    if len(prefix) == 1 and scenario_fails(bins, workdir, [], run, v["k"], v["clause"]):
        prefix = []
    # shrink the surviving prefix runs to single solves where possible
    out = []
    for i, pr in enumerate(prefix):
        best = pr
        for s_ in pr["solves"]:
            cand = dict(pr, solves=[dict(s_, reset=0)])
            if scenario_fails(bins, workdir, out + [cand] + prefix[i + 1:], run, v["k"], v["clause"]):
                best = cand
                break
        out.append(best)
    return out


def replay_doc(run, k, clause, seed, trace):
    return {"seed": seed, "variant": run["variant"], "nsys": run["nsys"], "solves": run["solves"],
            "origin": run.get("origin"), "violating_solve": k, "clause": clause,
            "driver_lines": encode_run(0, run), "trace": trace}


def replay(path):
    doc = json.load(open(path))
    scratch = K.scratch_root()
    bins = build(scratch)
    run = {"variant": doc["variant"], "nsys": doc["nsys"], "solves": doc["solves"]}
    r = execute(bins, list(doc.get("earlier_runs_in_same_process", [])) + [run], scratch, trace=True)[-1]
    k, clause = doc["violating_solve"], doc["clause"]
    got = r["clauses"][k] if k < len(r["clauses"]) else []
    print(f"replay {path}: variant={doc['variant']} solve={k} expected clause={clause} observed={got}")
    for t in r.get("traces", []):
        print("  trace:", t[:2000])
    if clause in got:
        print(f"VIOLATION property={PROP} replay={path}")
        return K.EXIT_VIOLATION
    print("replay did not reproduce the violation on this tree")
    return K.EXIT_OK


# --------------------------------------------------------------------------
# batch worker + main
# --------------------------------------------------------------------------
_G = {}


def _worker(task):
    kind, lo, hi = task
    seed = _G["seed"]
    bins = _G["bins"]
    wd = os.path.join(_G["scratch"], f"w{os.getpid()}")
    os.makedirs(wd, exist_ok=True)
    if kind == "ladder":
        runs = _G["ladder"][lo:hi]
    else:
        runs = [gen_run(seed, i) for i in range(lo, hi)]
    res = execute(bins, runs, wd)
    stats = {"runs": len(runs), "solves": 0, "faulted_runs": 0, "sim_time": 0.0, "flags": {}, "triples": set(),
             "traces": set(), "reinit_failed": 0, "setup_failed": 0, "max_calls": 0, "pywrap": 0,
             "ode_budget_exceeded": 0, "ode_throws": 0, "variants": {}, "fail_rc": 0, "ok_rc": 0,
             "ill_input": 0, "levels": {}}
    viol = []
    digest_parts = []
    for n, (run, r) in enumerate(zip(runs, res)):
        v = run["variant"]
        mxe = effective_mxsteps(run)
        stats["variants"][v] = stats["variants"].get(v, 0) + 1
        faulted = False
        for k, s in enumerate(run["solves"]):
            stats["solves"] += 1
            stats["pywrap"] += s["mode"]
            if k >= len(r["results"]):
                continue
            rr = r["results"][k]
            if rr["rc"] == 0:
                stats["ok_rc"] += 1
                stats["sim_time"] += s["dt"]
            else:
                stats["fail_rc"] += 1
            if is_odeint(v):
                if s["nsteps"] > mxe[k]:
                    stats["ode_budget_exceeded"] += 1
                    faulted = True
                if rr["threw"]:
                    stats["ode_throws"] += 1
                    faulted = True
                digest_parts.append((rr["rc"], rr["thrown"], rr["observer_calls"], rr["steps_done"], rr["mn"].hex()))
                key = ("odeint", mxe[k], min(s["nsteps"], 3 * mxe[k] + 3), s["throw_at"] >= 0, s["mode"], rr["rc"])
                if faulted:
                    stats["traces"].add(K.hash64(key))
            else:
                for lv, sb, fl in rr["fail_events"]:
                    faulted = True
                    stats["flags"][fl] = stats["flags"].get(fl, 0) + 1
                    nsub = NSUB.get(lv, 50)
                    bucket = "first" if sb == 1 else ("last" if sb == nsub else "mid")
                    stats["triples"].add((lv, bucket, flag_class(fl)))
                    stats["levels"][lv] = stats["levels"].get(lv, 0) + 1
                stats["reinit_failed"] += rr["reinit_failed"]
                if rr["reinit_failed"] or s["setup"][0] >= 0:
                    faulted = True
                if s["setup"][0] >= 0:
                    stats["setup_failed"] += 1
                stats["ill_input"] += rr["ill_input"]
                stats["max_calls"] = max(stats["max_calls"], rr["n_cvode"])
                digest_parts.append((rr["rc"], rr["thrown"], rr["trace_hash"], rr["mn"].hex(), rr["mx"].hex(), rr["logged"]))
                if rr["fail_events"] or rr["reinit_failed"] or s["setup"][0] >= 0:
                    stats["traces"].add(K.hash64(v, rr["trace_hash"]))
        if faulted:
            stats["faulted_runs"] += 1
        for k, c in violations_of(run, r):
            viol.append({"run": run, "k": k, "clause": c, "index": (kind, lo + n), "chunk": (kind, lo, hi), "pos": n})
    stats["triples"] = sorted(stats["triples"])
    stats["traces"] = sorted(stats["traces"])
    # keep at most a few violations per chunk (they are re-derived on minimisation)
    return {"stats": stats, "viol": viol[:50], "nviol": len(viol), "digest": K.digest(digest_parts),
            "sample": (runs[0], res[0]["results"][:1]) if runs else None}


def merge_stats(parts):
    tot = {"runs": 0, "solves": 0, "faulted_runs": 0, "sim_time": 0.0, "flags": {}, "triples": set(),
           "traces": set(), "reinit_failed": 0, "setup_failed": 0, "max_calls": 0, "pywrap": 0,
           "ode_budget_exceeded": 0, "ode_throws": 0, "variants": {}, "fail_rc": 0, "ok_rc": 0,
           "ill_input": 0, "levels": {}}
    for p in parts:
        for k, v in p.items():
            if isinstance(v, (int, float)) and k != "max_calls":
                tot[k] += v
            elif k == "max_calls":
                tot[k] = max(tot[k], v)
            elif isinstance(v, dict):
                for kk, vv in v.items():
                    tot[k][kk] = tot[k].get(kk, 0) + vv
            else:
                tot[k].update(tuple(x) if isinstance(x, list) else x for x in v)
    return tot


def main(argv):
    tier = K.tier_arg(argv)
    seed = K.base_seed()
    timer = K.Timer()
    scratch = K.scratch_root()
    bins = build(scratch)
    build_s = timer.s()
    ladder = ladder_stratum()
    nseeded = {"quick": 400_000, "thorough": 20_000_000}[tier]
    if os.environ.get("C19_RUNS"):
        nseeded = int(os.environ["C19_RUNS"])
    chunk = 2000
    tasks = [("ladder", i, min(i + 400, len(ladder))) for i in range(0, len(ladder), 400)]
    tasks += [("seeded", i, min(i + chunk, nseeded)) for i in range(0, nseeded, chunk)]
    _G.update(seed=seed, bins=bins, scratch=scratch, ladder=ladder)
    budget = {"quick": 150, "thorough": 3000}[tier]
    parts = K.pool_map(_worker, tasks, deadline=timer.t0 + budget)
    done = [p for p in parts if p is not None]
    skipped = len(parts) - len(done)
    stats = merge_stats([p["stats"] for p in done])
    viol = [v for p in done for v in p["viol"]]
    nviol = sum(p["nviol"] for p in done)
    batch_digest = K.digest([p["digest"] for p in done])

    known = K.load_known_findings(PROP)
    reported = {}
    known_hit = {}
    for v in viol:
        run, k, clause = v["run"], v["k"], v["clause"]
        mode = run["solves"][k]["mode"] if clause not in ("hang", "crash") else 0
        e = match_known(known, run["variant"], mode, clause)
        if e is not None:
            known_hit.setdefault(e["id"], [e, 0])[1] += 1
            continue
        key = (run["variant"], clause, mode)
        if key not in reported:
            reported[key] = v
    exit_code = K.EXIT_OK
    replays = []
    for key, v in sorted(reported.items(), key=lambda kv: repr(kv[0])):
        run, k, clause = v["run"], v["k"], v["clause"]
        wd = os.path.join(scratch, "min")
        os.makedirs(wd, exist_ok=True)
        prefix = []
        if clause in ("hang", "crash"):
            mrun, mk = run, 0
        elif scenario_fails(bins, wd, [], run, k, clause):
            mrun, mk = minimise(bins, wd, run, k, clause)
        else:
            prefix = find_prefix(bins, wd, v, seed, ladder)
            if prefix is None:
                print(f"HARNESS: violation {key} did not reproduce, neither alone nor after the earlier runs of its chunk", file=sys.stderr)
                exit_code = K.EXIT_HARNESS if exit_code == K.EXIT_OK else exit_code
                continue
            mrun, mk = run, k
        rr = execute(bins, prefix + [mrun], wd, trace=True)[-1]
        if clause not in (rr["clauses"][mk] if mk < len(rr["clauses"]) else []):
            print(f"HARNESS: violation {key} did not reproduce after minimisation", file=sys.stderr)
            exit_code = K.EXIT_HARNESS if exit_code == K.EXIT_OK else exit_code
            continue
        doc = replay_doc(mrun, mk, clause, seed, rr.get("traces", []))
        if prefix:
            doc["earlier_runs_in_same_process"] = prefix
            doc["driver_lines"] = sum((encode_run(i, r) for i, r in enumerate(prefix + [mrun])), [])
            print(f"note: this violation needs {len(prefix)} earlier Naunet object(s) in the same process "
                  f"(state shared between objects or calls in the generated code)")
        path = K.write_replay(PROP, seed, len(replays), doc)
        replays.append(path)
        print(f"violated clause: {clause}; variant={key[0]} entry={'PyWrapSolve' if key[2] else 'Solve'}; "
              f"minimised to {len(mrun['solves'])} Solve call(s), outcomes={mrun['solves'][mk].get('outcomes', mrun['solves'][mk].get('nsteps'))}")
        print(f"VIOLATION property={PROP} replay={path}")
        exit_code = K.EXIT_VIOLATION  # a demonstrated violation outranks a harness problem elsewhere
    for fid, (e, n) in sorted(known_hit.items()):
        print(f"KNOWN-FINDING: property={PROP} {e['what']} [{fid}; {n} occurrences in this run]")
    # regression corpus: minimised scenarios of earlier violations, replayed on this tree's binaries
    corpus = K.corpus_files(PROP)
    corpus_hits, corpus_unusable = 0, []
    for n, f in enumerate(corpus):
        try:
            doc = json.load(open(f))
            run = {"variant": doc["variant"], "nsys": doc["nsys"], "solves": doc["solves"]}
            wd = os.path.join(scratch, f"corpus{n}")
            os.makedirs(wd, exist_ok=True)
            r = execute(bins, list(doc.get("earlier_runs_in_same_process", [])) + [run], wd)[-1]
            k, clause = doc["violating_solve"], doc["clause"]
            got = r["clauses"][k] if k < len(r["clauses"]) else []
        except (K.HarnessError, KeyError, TypeError, ValueError) as e:
            corpus_unusable.append(f"{os.path.basename(f)}: {type(e).__name__}: {str(e)[:120]}")
            continue
        if clause in got:
            corpus_hits += 1
            print(f"violated clause: {clause}; variant={doc['variant']} (corpus scenario {os.path.basename(f)})")
            print(f"VIOLATION property={PROP} replay={f}")
            exit_code = K.EXIT_VIOLATION

    wall = timer.s()
    total_runs = stats["runs"]
    sample_run, sample_res = (done[-1]["sample"] if done else (None, None))
    reachable_triples = 6 * 3 * 3 - 2 * 3  # level 0 has a single sub-step: only 'first'(=last) bucket
    coverage = {
        "evaluations": stats["solves"],
        "corpus_scenarios_replayed": len(corpus),
        "corpus_scenarios_reproduced": corpus_hits,
        "corpus_scenarios_unusable": corpus_unusable,
        "distinct_nontrivial": len(stats["traces"]),
        "rule": "one evaluation = one Solve/PyWrapSolve call of the rendered Naunet class under a scripted "
                "integrator-outcome sequence; non-trivial = at least one scripted fault was actually consumed by "
                "the generated code (failing CVode call, failing CVodeReInit, failing set-up call, odeint budget "
                "exceeded or integrator throw); distinct = distinct (variant, hash of the full mock call trace "
                "incl. tout/tret values) for CVODE, distinct (budget, steps, throw, entry point, rc) for odeint",
        "samples": [
            {"run": sample_run, "first_result": sample_res},
            {"ladder_stratum_example": ladder[len(ladder) // 3]},
        ],
        "exhaustive": False,
        "runs": total_runs,
        "runs_per_hour": int(total_runs / max(wall - build_s, 1e-6) * 3600),
        "solve_calls": stats["solves"],
        "runs_with_fault_fired": stats["faulted_runs"],
        "fault_free_runs": total_runs - stats["faulted_runs"],
        "simulated_time_integrated_s": stats["sim_time"],
        "faults_fired": {
            "cvode_flag_counts": {str(k): v for k, v in sorted(stats["flags"].items())},
            "failing_reinit": stats["reinit_failed"],
            "failing_setup_call": stats["setup_failed"],
            "odeint_budget_exceeded": stats["ode_budget_exceeded"],
            "odeint_integrator_throw": stats["ode_throws"],
            "cv_ill_input_returned_by_mock": stats["ill_input"],
        },
        "failures_per_ladder_level": {str(k): v for k, v in sorted(stats["levels"].items())},
        "ladder_coverage": {"reached_triples": len(stats["triples"]), "reachable_triples": reachable_triples,
                            "measure": "(level 0..5, sub-step bucket first/mid/last, flag class recoverable/reset/unrecoverable) of consumed failing CVode calls"},
        "ladder_stratum_runs": len(ladder),
        "seeded_runs": total_runs - len(ladder) if total_runs >= len(ladder) else 0,
        "chunks_skipped_for_time": skipped,
        "pywrap_calls": stats["pywrap"],
        "returns": {"success": stats["ok_rc"], "fail": stats["fail_rc"]},
        "longest_call_trace": stats["max_calls"],
        "runs_per_variant": stats["variants"],
        "batch_digest": batch_digest,
        "violations_total_occurrences": nviol,
        "known_findings_hit": {fid: n for fid, (e, n) in known_hit.items()},
        "components": {
            "real": ["Naunet::Init/Reset/Solve/HandleError/CheckFlag/Finalize/PyWrapSolve rendered from /repo templates (cvode dense, sparse, cusparse; odeint)",
                     "Observer from rendered odeint naunet_ode.cpp"],
            "stub": ["CVODE/SUNDIALS API (scripted mock, y(t)=y0+t)", "Boost.odeint integrate_adaptive (scripted mock)",
                     "uBLAS containers", "pybind11 array_t", "CUDA runtime / cuSPARSE / cuSOLVER handles",
                     "Fex/Jac/Renorm bodies (never called by the mock)"],
        },
        "build_s": round(build_s, 2),
    }
    K.write_evidence(PROP, tier, seed, "fault_enumeration", coverage, wall, len(replays) + corpus_hits, [
        "the mock reproduces CVODE's documented return conventions: flag<0 on failure with y and tret at the last time reached; CV_ILL_INPUT for tout<=t",
        "Boost integrate_adaptive calls the observer before every step and once at the end, and its errors derive from std::runtime_error",
        "flag classes as in the property text: -1..-4 recoverable, -6 reset, every other negative flag unrecoverable",
        "equality of the integrated span is judged to 1e-9 relative (the ladder's last sub-step is pow(10, log10(dt)))",
    ])
    print(f"C19 {tier}: {total_runs} runs / {stats['solves']} Solve calls in {wall:.1f}s, "
          f"{stats['faulted_runs']} runs with faults fired, {len(stats['traces'])} distinct faulted traces, "
          f"ladder triples {len(stats['triples'])}/{reachable_triples}, digest {batch_digest}")
    return exit_code
