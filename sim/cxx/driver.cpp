// Driver: reads scripts from stdin, runs the *rendered, unmodified* Naunet
// class against the mock integrator, prints one result line per Solve call.
//
//   run <id> <nsolve> <nsys> [<overlap: keep the previous object alive during this run>]
//   solve <mode> <reset: 0 no, 1 Reset(), 2 Finalize()+Init()+Reset()> <mxsteps> <dt> <ny0> <y0...>            (all variants;
//         ny0 / NEQUATIONS is the number of systems passed to that Reset/Init - it may differ from the run's)
//         cvode : <nout> (<flag> <frac>)* <nre> (<k> <flag>)* <setup_idx> <setup_flag> <tail_on> <tail_flag> <tail_frac>
//         odeint: <nsteps> <shape> <throw_at> <throw_kind> <nsteps2> <throw_at2>
//
// Numbers that must be exact (dt, y0, frac) are C hex floats.
#include <math.h>
#include <signal.h>
#include <stdio.h>
#include <stdlib.h>
#include <string.h>
#include <sys/prctl.h>
#include <sys/stat.h>
#include <unistd.h>

#include <stdexcept>
#include <string>
#include <vector>

#include "naunet.h"
#include "naunet_ode.h"
#include "naunet_physics.h"
#include "naunet_renorm.h"

#ifdef VARIANT_ODEINT
#include "mock_odeint.h"
#else
#include "mock_cvode.h"
#endif

// ---- stubs for the generated functions the mock never calls -----------------
#ifdef VARIANT_ODEINT
int InitRenorm(double *, matrix_type &) { return 0; }
int RenormAbundance(vector_type, double *) { return 0; }
#else
int Fex(realtype, N_Vector, N_Vector, void *) { return 0; }
int Jac(realtype, N_Vector, N_Vector, SUNMatrix, void *, N_Vector, N_Vector, N_Vector) { return 0; }
int InitRenorm(realtype *, SUNMatrix) { return 0; }
int RenormAbundance(realtype *, realtype *) { return 0; }
#ifdef NAUNET_VERIF_CUDA_SHIM
int InitJac(SUNMatrix) { return 0; }
#endif
#endif
double GetElementAbund(double *, int) { return 1.0; }
double GetHNuclei(double *) { return 1.0; }
double GetMu(double *) { return 1.0; }
double GetGamma(double *) { return 1.0; }
double GetNumDens(double *) { return 1.0; }

static const char *RECORD = "naunet_error_record.txt";
static long g_cur_run = -1;
static long g_cur_run_prev = -1;
static int g_cur_solve = -1;

static void on_alarm(int) {
    char buf[96];
    int n = snprintf(buf, sizeof buf, "hang %ld %d\n", g_cur_run, g_cur_solve);
    if (write(1, buf, (size_t)n) < 0) {
    }
    _exit(3);
}

static std::string read_whole_record() {
    fflush(NULL);
    std::string s;
    FILE *f = fopen(RECORD, "r");
    if (!f) return s;
    char buf[4096];
    size_t n;
    while ((n = fread(buf, 1, sizeof buf, f)) > 0) s.append(buf, n);
    fclose(f);
    return s;
}

// The record accumulates (naunet opens it in append mode); what a call wrote is what was added
// since the last look.  The driver itself only empties the file between runs when no object is
// alive and nothing written earlier still has to be found there (see verify_pending).
static long g_rec_off = 0;
static std::string read_record_new() {
    std::string s = read_whole_record();
    if ((long)s.size() < g_rec_off) g_rec_off = 0;  // replaced or cut by the code under test
    std::string out = s.substr((size_t)g_rec_off);
    g_rec_off = (long)s.size();
    return out;
}

// The property only says "with the initial state logged"; the layout of the record is naunet's
// business.  So: every non-zero initial value must appear as a number somewhere in what the
// failing Solve wrote (7 significant digits are enough).  The initial values are distinct
// multiples of dt, and differ from every partially advanced value unless no progress was made.
// returns 1 ok, 0 bad; note: 1 nothing written, 2 a value is missing
static int check_record(const std::string &rec, const std::vector<double> &y0, int *note) {
    *note = 0;
    if (rec.empty()) {
        *note = 1;
        return 0;
    }
    std::vector<double> nums;
    const char *p = rec.c_str();
    while (*p) {
        if ((*p >= '0' && *p <= '9') || ((*p == '-' || *p == '+' || *p == '.') && p[1] >= '0' && p[1] <= '9')) {
            char *end = NULL;
            double v = strtod(p, &end);
            if (end && end != p) {
                nums.push_back(v);
                p = end;
                continue;
            }
        }
        p++;
    }
    for (size_t i = 0; i < y0.size(); i++) {
        if (y0[i] == 0.0) continue;
        bool found = false;
        double tol = 2e-7 * fabs(y0[i]);
        for (size_t k = 0; k < nums.size() && !found; k++) found = fabs(nums[k] - y0[i]) <= tol;
        if (!found) {
            *note = 2;
            return 0;
        }
    }
    return 1;
}

// "with the initial state logged": a record that the library itself destroys later (a later
// Finalize, another object) is not a log.  Every failing Solve's initial state must still be in
// the file at the next object boundaries.
struct PendingRec {
    long run;
    int solve;
    std::vector<double> y0;
    int age;
};
static std::vector<PendingRec> g_pending;
static void verify_pending(long culprit_run, int culprit_solve, bool may_truncate) {
    std::string s = read_whole_record();
    for (size_t i = 0; i < g_pending.size();) {
        int note = 0;
        if (!check_record(s, g_pending[i].y0, &note)) {
            printf("lost %ld %d %ld %d\n", culprit_run, culprit_solve, g_pending[i].run, g_pending[i].solve);
            g_pending.erase(g_pending.begin() + (long)i);
            continue;
        }
        if (++g_pending[i].age >= 3) {
            g_pending.erase(g_pending.begin() + (long)i);
            continue;
        }
        i++;
    }
    if ((long)s.size() < g_rec_off) g_rec_off = 0;
    if (may_truncate && (g_pending.empty() || s.size() > (1u << 21))) {
        if (truncate(RECORD, 0) != 0) {
        }
        g_rec_off = 0;
        g_pending.clear();
    }
}

static bool next_tok(char *&save, const char *&tok) {
    tok = strtok_r(NULL, " \t\r\n", &save);
    return tok != NULL;
}
#define TOK()                                   \
    do {                                        \
        if (!next_tok(save, tok)) {             \
            printf("badscript %ld\n", g_cur_run); \
            return 2;                           \
        }                                       \
    } while (0)

int main(int argc, char **argv) {
    prctl(PR_SET_PDEATHSIG, SIGKILL);  // never outlive the checker (generated code may spin for ever)
    signal(SIGALRM, on_alarm);
    int trace_on = (argc > 1 && strcmp(argv[1], "trace") == 0);
    unsigned alarm_s = 60;
    if (getenv("MOCK_ALARM")) alarm_s = (unsigned)atoi(getenv("MOCK_ALARM"));
    char *line = NULL;
    size_t cap = 0;
    Naunet *naunet = NULL;
    Naunet *older = NULL;  // an earlier object kept alive while the next one works (overlapping lifetimes)
    NaunetData *older_data = NULL;
    int nsolve_left = 0, nsys = 1, solve_idx = 0;
    NaunetData *data = NULL;
    if (truncate(RECORD, 0) != 0) {
    }

    while (getline(&line, &cap, stdin) > 0) {
        char *save = NULL;
        const char *tok = strtok_r(line, " \t\r\n", &save);
        if (!tok) continue;
        // the watchdog covers everything done for a script line (Init/Reset/Finalize and the
        // driver's own bookkeeping too: generated code that corrupts memory may hang anywhere)
        alarm(alarm_s);
        if (strcmp(tok, "run") == 0) {
            TOK();
            g_cur_run = atol(tok);
            TOK();
            nsolve_left = atoi(tok);
            TOK();
            nsys = atoi(tok);
            int overlap = 0;
            if (next_tok(save, tok)) overlap = atoi(tok);
            if (older) {
                older->Finalize();
                delete older;
                older = NULL;
                delete[] older_data;
                older_data = NULL;
            }
            if (naunet) {
                if (overlap) {
                    older = naunet;  // stays initialised (its record file open) during the next run
                    older_data = data;
                } else {
                    naunet->Finalize();
                    delete naunet;
                    delete[] data;
                }
                naunet = NULL;
                data = NULL;
            }
            if (g_cur_run_prev >= 0) verify_pending(g_cur_run_prev, solve_idx > 0 ? solve_idx - 1 : 0, older == NULL);
            g_cur_run_prev = g_cur_run;
            solve_idx = 0;
            naunet = new Naunet();
            data = new NaunetData[nsys > 0 ? nsys : 1]();
            for (int i = 0; i < nsys; i++) {
                data[i].nH = 1e4;
                data[i].Tgas = 10.0;
            }
            int rc = naunet->Init(nsys, 1e-20, 1e-5, 500);
            if (rc != NAUNET_SUCCESS) {
                printf("initfail %ld %d\n", g_cur_run, rc);
            }
            continue;
        }
        if (strcmp(tok, "solve") != 0 || !naunet) {
            printf("badscript %ld\n", g_cur_run);
            return 2;
        }
        g_cur_solve = solve_idx;
        TOK();
        int mode = atoi(tok);
        TOK();
        int do_reset = atoi(tok);
        TOK();
        int mxsteps = atoi(tok);
        TOK();
        double dt = strtod(tok, NULL);
        TOK();
        int ny = atoi(tok);
        std::vector<double> y0((size_t)ny);
        for (int i = 0; i < ny; i++) {
            TOK();
            y0[(size_t)i] = strtod(tok, NULL);
        }
        {
            // the number of systems of this call is the length of its state; it may only change
            // where the user calls Reset (or Finalize+Init+Reset) before the call
            int nsys_now = ny / NEQUATIONS;
            if (ny % NEQUATIONS != 0 || nsys_now < 1) {
                printf("badscript %ld ny=%d not a multiple of %d\n", g_cur_run, ny, NEQUATIONS);
                return 2;
            }
            if (nsys_now != nsys) {
                if (!(do_reset || solve_idx == 0)) {
                    printf("badscript %ld ny=%d expected %d\n", g_cur_run, ny, NEQUATIONS * nsys);
                    return 2;
                }
                delete[] data;
                data = new NaunetData[nsys_now]();
                for (int i = 0; i < nsys_now; i++) {
                    data[i].nH = 1e4;
                    data[i].Tgas = 10.0;
                }
                nsys = nsys_now;
            }
        }
#ifdef VARIANT_ODEINT
        boost::numeric::odeint::mock_script &sc = boost::numeric::odeint::mock_current_script();
        memset(&sc, 0, sizeof sc);
        TOK();
        sc.nsteps = atol(tok);
        TOK();
        sc.shape = atoi(tok);
        TOK();
        sc.throw_at = atol(tok);
        TOK();
        sc.throw_kind = atoi(tok);
        TOK();
        sc.nsteps2 = atol(tok);
        TOK();
        sc.throw_at2 = atol(tok);
#else
        g_mock.reset_for_solve();
        g_mock.trace_on = trace_on;
        g_mock.outcomes.clear();
        g_mock.reinit_fail.clear();
        TOK();
        int nout = atoi(tok);
        for (int i = 0; i < nout; i++) {
            Outcome o;
            TOK();
            o.flag = atoi(tok);
            TOK();
            o.frac = strtod(tok, NULL);
            g_mock.outcomes.push_back(o);
        }
        TOK();
        int nre = atoi(tok);
        for (int i = 0; i < nre; i++) {
            TOK();
            int k = atoi(tok);
            TOK();
            int fl = atoi(tok);
            g_mock.reinit_fail.push_back(std::make_pair(k, fl));
        }
        TOK();
        g_mock.setup_fail_idx = atoi(tok);
        TOK();
        g_mock.setup_fail_flag = atoi(tok);
        TOK();
        g_mock.tail_on = atoi(tok);
        TOK();
        g_mock.tail.flag = atoi(tok);
        TOK();
        g_mock.tail.frac = strtod(tok, NULL);
#endif
        if (do_reset == 2) {
            // the user shuts the object down and initialises it again before this call
            naunet->Finalize();
            int irc = naunet->Init(nsys, 1e-20, 1e-5, 500);
            if (irc != NAUNET_SUCCESS) printf("initfail %ld %d\n", g_cur_run, irc);
        }
        if (do_reset || solve_idx == 0) {
            // mxsteps is fixed by Init/Reset; first solve always (re)sets it
            int rrc = naunet->Reset(nsys, 1e-20, 1e-5, mxsteps);
            if (rrc != NAUNET_SUCCESS) printf("resetfail %ld %d\n", g_cur_run, rrc);
        }
        read_record_new();

        std::vector<double> ab(y0);
        int rc = -99, thrown = 0, other_exc = 0;
        alarm(alarm_s);
        if (mode == 0) {
            try {
                rc = naunet->Solve(ab.data(), dt, data);
            } catch (const std::exception &e) {
                other_exc = 1;
            }
        } else {
            try {
                std::vector<pybind11::ssize_t_> shape(1, (pybind11::ssize_t_)ab.size());
                pybind11::array_t<double> arr(shape, ab.data());
                pybind11::array_t<double> out = naunet->PyWrapSolve(arr, dt, data);
                rc = NAUNET_SUCCESS;
                ab = out.values();
            } catch (const std::runtime_error &e) {
                thrown = 1;
                rc = NAUNET_FAIL;
            } catch (const std::exception &e) {
                other_exc = 1;
            }
        }
        alarm(alarm_s);
        std::string rec = read_record_new();
        int note = 0, logged = -1;
        if (rc == NAUNET_FAIL) logged = check_record(rec, y0, &note);
        if (rc == NAUNET_FAIL && logged == 1) {
            PendingRec pr;
            pr.run = g_cur_run;
            pr.solve = solve_idx;
            pr.y0 = y0;
            pr.age = 0;
            g_pending.push_back(pr);
        }
        double mn = INFINITY, mx = -INFINITY;
        for (size_t i = 0; i < ab.size(); i++) {
            double a = ab[i] - y0[i];
            if (a < mn || a != a) mn = a;
            if (a > mx || a != a) mx = a;
        }
#ifdef VARIANT_ODEINT
        printf("res %ld %d %d %d %d %a %a %d %d %ld %ld %d %d\n", g_cur_run, solve_idx, rc, thrown,
               other_exc, mn, mx, logged, note, sc.observer_calls, sc.steps_done, sc.threw, sc.calls);
#else
        printf("res %ld %d %d %d %d %a %a %d %d %ld %d %zu %d %d %d %016llx ", g_cur_run, solve_idx, rc,
               thrown, other_exc, mn, mx, logged, note, g_mock.n_cvode, g_mock.n_reinit,
               g_mock.next_outcome, g_mock.capped, g_mock.ill_input, g_mock.reinit_failed_fired,
               (unsigned long long)g_mock.trace_hash);
        if (g_mock.fail_events.empty()) printf("-");
        for (size_t i = 0; i < g_mock.fail_events.size(); i++) {
            printf("%s%d:%d:%d", i ? "," : "", g_mock.fail_events[i].level,
                   g_mock.fail_events[i].substep, g_mock.fail_events[i].flag);
        }
        printf("\n");
        if (trace_on) {
            g_mock.trace_txt.push_back('\0');
            printf("trace %ld %d %s\n", g_cur_run, solve_idx, g_mock.trace_txt.data());
        }
#endif
        solve_idx += 1;
        nsolve_left -= 1;
    }
    if (older) {
        older->Finalize();
        delete older;
        delete[] older_data;
    }
    if (naunet) {
        naunet->Finalize();
        delete naunet;
        delete[] data;
    }
    if (g_cur_run >= 0) verify_pending(g_cur_run, solve_idx > 0 ? solve_idx - 1 : 0, true);
    free(line);
    printf("done\n");
    return 0;
}
