// Scripted mock of the CVODE API used by the rendered naunet.cpp.
// The "solution" of the ODE is y(t) = y0 + t for every component, so the
// state of the vector measures integrated time.
#include "mock_cvode.h"

#include <stdlib.h>
#include <string.h>

MockState g_mock;

static int setup_result(int which) {
    g_mock.trace_add('s', which, 0.0, 0);
    if (g_mock.mem_null) return CV_MEM_NULL;
    if (g_mock.setup_fail_idx == which) return g_mock.setup_fail_flag;
    return CV_SUCCESS;
}

realtype &_mock_sm_element(SUNMatrix, long, long) {
    static realtype dummy;
    return dummy;
}

int SUNContext_Create(void *, SUNContext *ctx) {
    *ctx = new _mock_SUNContext();
    (*ctx)->id = 1;
    return 0;
}
int SUNContext_Free(SUNContext *ctx) {
    if (ctx && *ctx) {
        delete *ctx;
        *ctx = NULL;
    }
    return 0;
}

static N_Vector newvec(sunindextype n, realtype *data, int own) {
    N_Vector v = new _mock_NVector();
    v->n = n;
    v->own = own;
    v->data = own ? (realtype *)calloc((size_t)(n > 0 ? n : 1), sizeof(realtype)) : data;
    return v;
}
N_Vector N_VNewEmpty_Serial(sunindextype n, SUNContext) { return newvec(n, NULL, 0); }
N_Vector N_VNew_Serial(sunindextype n, SUNContext) { return newvec(n, NULL, 1); }
N_Vector N_VMake_Serial(sunindextype n, realtype *data, SUNContext) { return newvec(n, data, 0); }
void N_VSetArrayPointer(realtype *data, N_Vector v) { v->data = data; }
realtype *N_VGetArrayPointer(N_Vector v) { return v->data; }
void N_VConst(realtype c, N_Vector v) {
    for (sunindextype i = 0; i < v->n; i++) v->data[i] = c;
}
void N_VDestroy(N_Vector v) {
    if (!v) return;
    if (v->own) free(v->data);
    delete v;
}
void N_VFreeEmpty(N_Vector v) {
    if (v) delete v;
}

SUNMatrix SUNDenseMatrix(sunindextype, sunindextype, SUNContext) {
    SUNMatrix A = new _mock_SUNMatrix();
    A->kind = 0;
    return A;
}
SUNMatrix SUNSparseMatrix(sunindextype, sunindextype, sunindextype, int, SUNContext) {
    SUNMatrix A = new _mock_SUNMatrix();
    A->kind = 1;
    return A;
}
void SUNMatDestroy(SUNMatrix A) { delete A; }
SUNLinearSolver SUNLinSol_Dense(N_Vector, SUNMatrix, SUNContext) {
    SUNLinearSolver S = new _mock_SUNLinSol();
    S->kind = 0;
    return S;
}
SUNLinearSolver SUNLinSol_KLU(N_Vector, SUNMatrix, SUNContext) {
    SUNLinearSolver S = new _mock_SUNLinSol();
    S->kind = 1;
    return S;
}
int SUNLinSolFree(SUNLinearSolver S) {
    delete S;
    return 0;
}
int SUNLinSolSetup(SUNLinearSolver, SUNMatrix) { return 0; }
int SUNLinSolSolve(SUNLinearSolver, SUNMatrix, N_Vector, N_Vector, realtype) { return 0; }

// Like CVODE, the mock keeps its OWN copy of the solution (the Nordsieck array zn[0]): CVodeInit and
// CVodeReInit copy y0 into it, CVode advances it and writes it to yout.  What the caller puts into
// the vector between a (re)initialisation and the next CVode call is overwritten, not integrated.
struct MockCVMem {
    realtype tcur;
    int inited;
    std::vector<realtype> zn;
};

void *CVodeCreate(int, SUNContext) {
    g_mock.trace_add('c', 0, 0.0, 0);
    if (g_mock.setup_fail_idx == SETUP_CREATE) {
        g_mock.mem_null = 1;
        return NULL;
    }
    g_mock.mem_null = 0;
    MockCVMem *m = new MockCVMem();
    m->tcur = 0.0;
    m->inited = 0;
    return m;
}
int CVodeSetErrFile(void *, FILE *) { return setup_result(SETUP_ERRFILE); }
int CVodeSetMaxNumSteps(void *, long) { return setup_result(SETUP_MAXSTEPS); }
int CVodeInit(void *mem, CVRhsFn, realtype t0, N_Vector y0) {
    int r = setup_result(SETUP_INIT);
    if (r < 0) return r;
    MockCVMem *m = (MockCVMem *)mem;
    m->tcur = t0;
    m->inited = 1;
    m->zn.assign(y0 && y0->data ? y0->data : NULL, y0 && y0->data ? y0->data + y0->n : NULL);
    return r;
}
int CVodeSStolerances(void *, realtype, realtype) { return setup_result(SETUP_TOL); }
int CVodeSetLinearSolver(void *, SUNLinearSolver, SUNMatrix) { return setup_result(SETUP_LS); }
int CVodeSetJacFn(void *, CVLsJacFn) { return setup_result(SETUP_JAC); }
int CVodeSetUserData(void *, void *) { return setup_result(SETUP_USERDATA); }

int CVodeReInit(void *mem, realtype t0, N_Vector y0) {
    g_mock.n_reinit += 1;
    g_mock.level = g_mock.n_reinit;
    g_mock.substep = 0;
    int flag = CV_SUCCESS;
    if (!mem) flag = CV_MEM_NULL;
    for (size_t i = 0; i < g_mock.reinit_fail.size(); i++) {
        if (g_mock.reinit_fail[i].first == g_mock.n_reinit) flag = g_mock.reinit_fail[i].second;
    }
    g_mock.trace_add('r', flag, t0, g_mock.n_reinit);
    if (flag < 0) {
        g_mock.reinit_failed_fired += 1;
        return flag;
    }
    MockCVMem *m = (MockCVMem *)mem;
    m->tcur = t0;
    m->inited = 1;
    m->zn.assign(y0 && y0->data ? y0->data : NULL, y0 && y0->data ? y0->data + y0->n : NULL);
    return flag;
}

int CVode(void *mem, realtype tout, N_Vector y, realtype *tret, int) {
    g_mock.n_cvode += 1;
    g_mock.substep += 1;
    if (g_mock.n_cvode > MOCK_CALL_CAP) {
        g_mock.capped = 1;
        g_mock.trace_add('X', CV_MEM_FAIL, tout, g_mock.n_cvode);
        return CV_MEM_FAIL;  // unrecoverable: breaks any loop that honours flags
    }
    MockCVMem *m = (MockCVMem *)mem;
    if (!m) return CV_MEM_NULL;
    if (!m->inited) {
        g_mock.trace_add('C', -23, tout, 0);
        return -23;  // CV_NO_MALLOC
    }
    if (!(tout > m->tcur)) {
        // tout == t0 / behind / NaN: CVODE refuses with CV_ILL_INPUT
        g_mock.ill_input += 1;
        *tret = m->tcur;
        g_mock.trace_add('C', CV_ILL_INPUT, tout, 0);
        return CV_ILL_INPUT;
    }
    int flag = 0;
    realtype frac = 1.0;
    if (g_mock.next_outcome < g_mock.outcomes.size()) {
        flag = g_mock.outcomes[g_mock.next_outcome].flag;
        frac = g_mock.outcomes[g_mock.next_outcome].frac;
        g_mock.next_outcome += 1;
    } else if (g_mock.tail_on) {
        flag = g_mock.tail.flag;  // a problem on which the integrator keeps failing
        frac = g_mock.tail.frac;
        g_mock.tail_used += 1;
    }
    realtype tnew;
    if (flag >= 0) {
        tnew = tout;
    } else {
        tnew = m->tcur + frac * (tout - m->tcur);
        if (frac == 1.0) {
            tnew = tout;  // abnormal but conceivable: the flag is raised after the whole target was reached (ladder stratum only)
        } else if (!(tnew < tout)) {
            tnew = m->tcur;  // otherwise never complete on a failure
        }
        g_mock.fail_events.push_back(FailEvent{g_mock.level, g_mock.substep, flag});
    }
    realtype adv = tnew - m->tcur;
    if ((sunindextype)m->zn.size() != y->n) m->zn.assign(y->data, y->data + y->n);  // (vector resized: take what is there)
    for (sunindextype i = 0; i < y->n; i++) {
        m->zn[(size_t)i] += adv;
        y->data[i] = m->zn[(size_t)i];
    }
    g_mock.integrated += adv;
    m->tcur = tnew;
    *tret = tnew;
    g_mock.trace_add('C', flag, tout, tnew);
    return flag;
}

void CVodeFree(void **mem) {
    if (mem && *mem) {
        delete (MockCVMem *)*mem;
        *mem = NULL;
    }
}

#define GETNUM(name)              \
    int name(void *, long *v) {  \
        *v = 0;                   \
        return 0;                 \
    }
GETNUM(CVodeGetNumSteps)
GETNUM(CVodeGetNumRhsEvals)
GETNUM(CVodeGetNumLinSolvSetups)
GETNUM(CVodeGetNumErrTestFails)
GETNUM(CVodeGetNumNonlinSolvIters)
GETNUM(CVodeGetNumNonlinSolvConvFails)
GETNUM(CVodeGetNumJacEvals)
GETNUM(CVodeGetNumGEvals)

#ifdef NAUNET_VERIF_CUDA_SHIM
cudaError_t cudaMallocHost(void **p, size_t n) {
    *p = calloc(n ? n : 1, 1);
    return 0;
}
cudaError_t cudaFreeHost(void *p) {
    free(p);
    return 0;
}
cudaError_t cudaStreamCreate(cudaStream_t *s) {
    *s = NULL;
    return 0;
}
cudaError_t cudaStreamDestroy(cudaStream_t) { return 0; }
int cusparseCreate(cusparseHandle_t *h) {
    *h = NULL;
    return 0;
}
int cusparseDestroy(cusparseHandle_t) { return 0; }
int cusparseSetStream(cusparseHandle_t, cudaStream_t) { return 0; }
int cusolverSpCreate(cusolverSpHandle_t *h) {
    *h = NULL;
    return 0;
}
int cusolverSpDestroy(cusolverSpHandle_t) { return 0; }
int cusolverSpSetStream(cusolverSpHandle_t, cudaStream_t) { return 0; }
N_Vector N_VNew_Cuda(sunindextype n, SUNContext) { return newvec(n, NULL, 0); }
N_Vector N_VNewEmpty_Cuda(SUNContext) { return newvec(0, NULL, 0); }
int N_VSetKernelExecPolicy_Cuda(N_Vector, SUNCudaExecPolicy *, SUNCudaExecPolicy *) { return 0; }
void N_VSetHostArrayPointer_Cuda(realtype *h, N_Vector v) { v->data = h; }
realtype *N_VGetHostArrayPointer_Cuda(N_Vector v) { return v->data; }
void N_VCopyToDevice_Cuda(N_Vector) {}
void N_VCopyFromDevice_Cuda(N_Vector) {}
SUNMatrix SUNMatrix_cuSparse_NewBlockCSR(int, int, int, int, cusparseHandle_t, SUNContext) {
    SUNMatrix A = new _mock_SUNMatrix();
    A->kind = 2;
    return A;
}
int SUNMatrix_cuSparse_SetFixedPattern(SUNMatrix, booleantype) { return 0; }
SUNLinearSolver SUNLinSol_cuSolverSp_batchQR(N_Vector, SUNMatrix, cusolverSpHandle_t, SUNContext) {
    SUNLinearSolver S = new _mock_SUNLinSol();
    S->kind = 2;
    return S;
}
void SUNLinSol_cuSolverSp_batchQR_GetDeviceSpace(SUNLinearSolver, size_t *a, size_t *b) {
    *a = 0;
    *b = 0;
}
#endif
