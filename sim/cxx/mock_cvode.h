#ifndef NAUNET_VERIF_MOCK_CVODE_H
#define NAUNET_VERIF_MOCK_CVODE_H

#include <stdint.h>
#include <stdio.h>
#include <utility>
#include <vector>

#include "sundials_shim.h"

#define MOCK_CALL_CAP 4096

enum {
    SETUP_ERRFILE = 0,
    SETUP_MAXSTEPS = 1,
    SETUP_INIT = 2,
    SETUP_TOL = 3,
    SETUP_LS = 4,
    SETUP_JAC = 5,
    SETUP_USERDATA = 6,
    SETUP_CREATE = 7,
    SETUP_NONE = -1
};

struct Outcome {
    int flag;
    double frac;
};
struct FailEvent {
    int level;    // 0: the first call in Solve; k: k-th CVodeReInit since Solve began
    int substep;  // CVode call number since that (re)init
    int flag;
};

struct MockState {
    // script for the current Solve
    std::vector<Outcome> outcomes;
    int tail_on;       // after the scripted outcomes: 0 = every call succeeds, 1 = every call fails like `tail`
    Outcome tail;
    std::vector<std::pair<int, int> > reinit_fail;  // (k-th reinit, flag)
    int setup_fail_idx;
    int setup_fail_flag;
    // observations
    size_t next_outcome;
    long n_cvode;
    int n_reinit;
    int reinit_failed_fired;
    int level, substep;
    int capped;
    int ill_input;
    long tail_used;
    int mem_null;
    double integrated;
    std::vector<FailEvent> fail_events;
    uint64_t trace_hash;
    int trace_on;
    std::vector<char> trace_txt;

    void reset_for_solve() {
        next_outcome = 0;
        n_cvode = 0;
        n_reinit = 0;
        reinit_failed_fired = 0;
        level = 0;
        substep = 0;
        capped = 0;
        ill_input = 0;
        tail_used = 0;
        mem_null = 0;
        integrated = 0.0;
        fail_events.clear();
        trace_hash = 1469598103934665603ULL;
        trace_txt.clear();
    }
    void trace_add(char kind, int flag, double a, double b) {
        // FNV-1a over the event; optional readable trace
        unsigned char buf[32];
        size_t n = 0;
        buf[n++] = (unsigned char)kind;
        for (int i = 0; i < 4; i++) buf[n++] = (unsigned char)((flag >> (8 * i)) & 0xff);
        uint64_t ua, ub;
        __builtin_memcpy(&ua, &a, 8);
        __builtin_memcpy(&ub, &b, 8);
        for (int i = 0; i < 8; i++) buf[n++] = (unsigned char)((ua >> (8 * i)) & 0xff);
        for (int i = 0; i < 8; i++) buf[n++] = (unsigned char)((ub >> (8 * i)) & 0xff);
        for (size_t i = 0; i < n; i++) {
            trace_hash ^= buf[i];
            trace_hash *= 1099511628211ULL;
        }
        if (trace_on && trace_txt.size() < 200000) {
            char line[160];
            int m = snprintf(line, sizeof line, "%c:%d:%.17g:%.17g;", kind, flag, a, b);
            trace_txt.insert(trace_txt.end(), line, line + m);
        }
    }
};

extern MockState g_mock;

#endif
