// Script state of the mock Boost.odeint integrator (see shim/boost/numeric/odeint.hpp)
#include "mock_odeint.h"

#include <math.h>

namespace boost {
namespace numeric {
namespace odeint {

static mock_script g_script;

mock_script &mock_current_script() { return g_script; }

// end time of step k (0-based) of s.nsteps steps covering [t0, t1]; strictly
// increasing, the caller forces the last step to end exactly at t1
double mock_step_end(const mock_script &s, long k, double t0, double t1) {
    double n = (double)s.nsteps;
    double u;
    if (s.shape == 1) {
        // geometric growth: u_k = (2^(k+1) - 1) / (2^n - 1), clipped for large n
        double m = n > 40 ? 40.0 : n;
        double kk = (double)(k + 1) - (n - m);
        u = kk <= 0 ? ((double)(k + 1)) * 1e-12 / n : (pow(2.0, kk) - 1.0) / (pow(2.0, m) - 1.0);
        if (u < ((double)(k + 1)) * 1e-12 / n) u = ((double)(k + 1)) * 1e-12 / n;
    } else if (s.shape == 2) {
        // one tiny first step, then uniform
        u = 1e-9 + (1.0 - 1e-9) * (double)k / n;
    } else {
        u = (double)(k + 1) / n;
    }
    return t0 + u * (t1 - t0);
}

}  // namespace odeint
}  // namespace numeric
}  // namespace boost
