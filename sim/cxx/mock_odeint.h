#ifndef NAUNET_VERIF_MOCK_ODEINT_H
#define NAUNET_VERIF_MOCK_ODEINT_H
#include <boost/numeric/odeint.hpp>
#endif
