// Verification shim for the few Boost.uBLAS / Boost.odeint names the rendered
// odeint back-end uses.  integrate_adaptive is a scripted integrator whose
// "solution" is x(t) = x0 + t; it calls the observer exactly as Boost's
// controlled-stepper integrate_adaptive does (before every step and once
// after the last one) and can throw a std::runtime_error-derived error, as
// Boost's step_adjustment_error / no_progress_error are.
#ifndef NAUNET_VERIF_ODEINT_SHIM_HPP
#define NAUNET_VERIF_ODEINT_SHIM_HPP

#include <cstddef>
#include <stdexcept>
#include <utility>
#include <vector>

namespace boost {
namespace numeric {
namespace ublas {

template <class T>
struct zero_matrix {
    std::size_t r, c;
    zero_matrix(std::size_t r_, std::size_t c_) : r(r_), c(c_) {}
};

template <class T>
class vector {
   public:
    vector() {}
    explicit vector(std::size_t n) : d_(n) {}
    T &operator[](std::size_t i) { return d_[i]; }
    const T &operator[](std::size_t i) const { return d_[i]; }
    T &operator()(std::size_t i) { return d_[i]; }
    const T &operator()(std::size_t i) const { return d_[i]; }
    std::size_t size() const { return d_.size(); }

   private:
    std::vector<T> d_;
};

template <class T>
class matrix {
   public:
    matrix() : r_(0), c_(0) {}
    matrix(std::size_t r, std::size_t c) : r_(r), c_(c), d_(r * c) {}
    matrix &operator=(const zero_matrix<T> &z) {
        r_ = z.r;
        c_ = z.c;
        d_.assign(r_ * c_, T());
        return *this;
    }
    T &operator()(std::size_t i, std::size_t j) { return d_[i * c_ + j]; }
    const T &operator()(std::size_t i, std::size_t j) const {
        return d_[i * c_ + j];
    }
    std::size_t size1() const { return r_; }
    std::size_t size2() const { return c_; }

   private:
    std::size_t r_, c_;
    std::vector<T> d_;
};

template <class T>
struct permutation_matrix {
    explicit permutation_matrix(std::size_t) {}
};

template <class M, class P>
int lu_factorize(M &, P &) {
    return 0;
}
template <class M, class P, class V>
void lu_substitute(const M &, const P &, V &) {}

}  // namespace ublas

namespace odeint {

struct odeint_error : public std::runtime_error {
    explicit odeint_error(const std::string &s) : std::runtime_error(s) {}
};
struct step_adjustment_error : public odeint_error {
    explicit step_adjustment_error(const std::string &s) : odeint_error(s) {}
};

template <class T>
struct rosenbrock4 {};
template <class S>
struct mock_controlled {
    double atol, rtol;
};
template <class S>
mock_controlled<S> make_controlled(double atol, double rtol) {
    mock_controlled<S> c;
    c.atol = atol;
    c.rtol = rtol;
    return c;
}

// script installed by the driver (defined in mock_odeint.cpp)
struct mock_script {
    long nsteps;      // number of accepted steps needed to reach t1
    int shape;        // 0 uniform, 1 geometric growth, 2 one tiny step then rest
    long throw_at;    // -1: never; k: the attempt of step k (0-based) throws
    int throw_kind;   // 0 step_adjustment_error, 1 plain std::runtime_error
    long observer_calls;
    long steps_done;
    int threw;
    int calls;        // number of integrate_adaptive invocations
    // what a SECOND and later invocation within the same Solve needs (a retry does not
    // have to meet the same difficulties as the first attempt)
    long nsteps2;
    long throw_at2;
};
mock_script &mock_current_script();
double mock_step_end(const mock_script &s, long k, double t0, double t1);

template <class Stepper, class System, class State, class Time, class Obs>
std::size_t integrate_adaptive(Stepper, System, State &x, Time t0, Time t1,
                               Time /*dt*/, Obs observer) {
    mock_script &s = mock_current_script();
    s.calls += 1;
    if (s.calls == 2) {
        s.nsteps = s.nsteps2;
        s.throw_at = s.throw_at2;
    }
    Time t = t0;
    std::size_t count = 0;
    for (long k = 0; k < s.nsteps; k++) {
        s.observer_calls += 1;
        observer(x, t);
        if (k == s.throw_at) {
            s.threw = 1;
            if (s.throw_kind == 0)
                throw step_adjustment_error(
                    "Max number of iterations exceeded (mock)");
            throw std::runtime_error("integrator failure (mock)");
        }
        Time tn = (k + 1 == s.nsteps) ? t1 : mock_step_end(s, k, t0, t1);
        for (std::size_t i = 0; i < x.size(); i++) x[i] += (tn - t);
        t = tn;
        s.steps_done += 1;
        ++count;
    }
    s.observer_calls += 1;
    observer(x, t);
    return count;
}

}  // namespace odeint
}  // namespace numeric
}  // namespace boost

#endif
