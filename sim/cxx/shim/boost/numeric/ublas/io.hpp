// verification shim
#include "../odeint.hpp"
