// verification shim: the real SUNDIALS is not available offline
#include "../sundials_shim.h"
