// verification shim
#include "pybind11.h"
