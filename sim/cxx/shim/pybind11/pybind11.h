// Verification shim for the pybind11 names used by the rendered naunet.h /
// naunet.cpp (PyWrap* methods and the module definition).  array_t owns a
// copy of the data it is constructed from, as pybind11's does.
#ifndef NAUNET_VERIF_PYBIND11_SHIM_H
#define NAUNET_VERIF_PYBIND11_SHIM_H

#include <stddef.h>
#include <stdexcept>
#include <vector>

namespace pybind11 {

typedef long ssize_t_;

struct module_ {};

struct arg {
    const char *name;
    explicit arg(const char *n) : name(n) {}
    template <class T>
    arg &operator=(T &&) {
        return *this;
    }
};

struct init_tag {};
inline init_tag init() { return init_tag(); }

template <class T>
struct class_ {
    template <class M>
    class_(M &, const char *) {}
    template <class... A>
    class_ &def(A &&...) {
        return *this;
    }
    template <class... A>
    class_ &def_readwrite(A &&...) {
        return *this;
    }
};

struct buffer_info {
    void *ptr;
    std::vector<ssize_t_> shape;
};

template <class T>
class array_t {
   public:
    array_t() {}
    array_t(const std::vector<ssize_t_> &shape, const T *ptr) : shape_(shape) {
        size_t n = 1;
        for (size_t i = 0; i < shape.size(); i++) n *= (size_t)shape[i];
        d_.assign(ptr, ptr + n);
    }
    buffer_info request() {
        buffer_info b;
        b.ptr = d_.data();
        b.shape = shape_;
        return b;
    }
    const std::vector<T> &values() const { return d_; }

   private:
    std::vector<ssize_t_> shape_;
    std::vector<T> d_;
};

}  // namespace pybind11

#define NAUNET_VERIF_CAT2(a, b) a##b
#define NAUNET_VERIF_CAT(a, b) NAUNET_VERIF_CAT2(a, b)
#define PYBIND11_MODULE(name, var) \
    static inline void NAUNET_VERIF_CAT(naunet_verif_pymodule_, name)(pybind11::module_ & var)

#endif
