// Declarations of the SUNDIALS/CVODE (and, for the cusparse variant, CUDA)
// names the rendered naunet.cpp uses.  Implemented by ../mock_cvode.cpp:
// a scripted integrator whose "solution" is y(t) = y0 + t.
// Return conventions follow SUNDIALS 6: flag >= 0 success, < 0 failure;
// on failure CVode leaves y and *tret at the last internal time reached.
#ifndef NAUNET_VERIF_SUNDIALS_SHIM_H
#define NAUNET_VERIF_SUNDIALS_SHIM_H

#include <stdio.h>
#include <stddef.h>
#include <math.h>
#include <algorithm>
#include <stdexcept>

typedef double realtype;
typedef long sunindextype;
typedef int booleantype;

struct _mock_NVector {
    realtype *data;
    sunindextype n;
    int own;
};
typedef _mock_NVector *N_Vector;
struct _mock_SUNMatrix {
    int kind;
};
typedef _mock_SUNMatrix *SUNMatrix;
struct _mock_SUNLinSol {
    int kind;
};
typedef _mock_SUNLinSol *SUNLinearSolver;
struct _mock_SUNContext {
    int id;
};
typedef _mock_SUNContext *SUNContext;

#define CV_ADAMS 1
#define CV_BDF 2
#define CV_NORMAL 1
#define CV_ONE_STEP 2
#define CV_SUCCESS 0
#define CV_TOO_MUCH_WORK -1
#define CV_TOO_MUCH_ACC -2
#define CV_ERR_FAILURE -3
#define CV_CONV_FAILURE -4
#define CV_LINIT_FAIL -5
#define CV_LSETUP_FAIL -6
#define CV_LSOLVE_FAIL -7
#define CV_RHSFUNC_FAIL -8
#define CV_MEM_FAIL -20
#define CV_MEM_NULL -21
#define CV_ILL_INPUT -22
#define CSC_MAT 0
#define CSR_MAT 1
#define SM_ELEMENT_D(A, i, j) (_mock_sm_element(A, i, j))

typedef int (*CVRhsFn)(realtype t, N_Vector y, N_Vector ydot, void *user_data);
typedef int (*CVLsJacFn)(realtype t, N_Vector y, N_Vector fy, SUNMatrix Jac,
                         void *user_data, N_Vector tmp1, N_Vector tmp2,
                         N_Vector tmp3);

realtype &_mock_sm_element(SUNMatrix A, long i, long j);

int SUNContext_Create(void *comm, SUNContext *ctx);
int SUNContext_Free(SUNContext *ctx);

N_Vector N_VNewEmpty_Serial(sunindextype n, SUNContext ctx);
N_Vector N_VNew_Serial(sunindextype n, SUNContext ctx);
N_Vector N_VMake_Serial(sunindextype n, realtype *data, SUNContext ctx);
void N_VSetArrayPointer(realtype *data, N_Vector v);
realtype *N_VGetArrayPointer(N_Vector v);
void N_VConst(realtype c, N_Vector v);
void N_VDestroy(N_Vector v);
void N_VFreeEmpty(N_Vector v);

SUNMatrix SUNDenseMatrix(sunindextype m, sunindextype n, SUNContext ctx);
SUNMatrix SUNSparseMatrix(sunindextype m, sunindextype n, sunindextype nnz,
                          int type, SUNContext ctx);
void SUNMatDestroy(SUNMatrix A);
SUNLinearSolver SUNLinSol_Dense(N_Vector y, SUNMatrix A, SUNContext ctx);
SUNLinearSolver SUNLinSol_KLU(N_Vector y, SUNMatrix A, SUNContext ctx);
int SUNLinSolFree(SUNLinearSolver S);
int SUNLinSolSetup(SUNLinearSolver S, SUNMatrix A);
int SUNLinSolSolve(SUNLinearSolver S, SUNMatrix A, N_Vector x, N_Vector b,
                   realtype tol);

void *CVodeCreate(int lmm, SUNContext ctx);
int CVodeSetErrFile(void *mem, FILE *f);
int CVodeSetMaxNumSteps(void *mem, long mxsteps);
int CVodeInit(void *mem, CVRhsFn f, realtype t0, N_Vector y0);
int CVodeReInit(void *mem, realtype t0, N_Vector y0);
int CVodeSStolerances(void *mem, realtype rtol, realtype atol);
int CVodeSetLinearSolver(void *mem, SUNLinearSolver LS, SUNMatrix A);
int CVodeSetJacFn(void *mem, CVLsJacFn jac);
int CVodeSetUserData(void *mem, void *user_data);
int CVode(void *mem, realtype tout, N_Vector yout, realtype *tret, int itask);
void CVodeFree(void **mem);
int CVodeGetNumSteps(void *mem, long *v);
int CVodeGetNumRhsEvals(void *mem, long *v);
int CVodeGetNumLinSolvSetups(void *mem, long *v);
int CVodeGetNumErrTestFails(void *mem, long *v);
int CVodeGetNumNonlinSolvIters(void *mem, long *v);
int CVodeGetNumNonlinSolvConvFails(void *mem, long *v);
int CVodeGetNumJacEvals(void *mem, long *v);
int CVodeGetNumGEvals(void *mem, long *v);

// ---------------------------------------------------------------- CUDA part
#ifdef NAUNET_VERIF_CUDA_SHIM
#ifndef __host__
#define __host__
#endif
#ifndef __device__
#define __device__
#endif
#ifndef __global__
#define __global__
#endif
typedef int cudaError_t;
typedef struct _mock_cuStream *cudaStream_t;
typedef struct _mock_cusparse *cusparseHandle_t;
typedef struct _mock_cusolver *cusolverSpHandle_t;
class SUNCudaExecPolicy {
   public:
    virtual ~SUNCudaExecPolicy() {}
};
class SUNCudaThreadDirectExecPolicy : public SUNCudaExecPolicy {
   public:
    SUNCudaThreadDirectExecPolicy(int, cudaStream_t = 0) {}
};
class SUNCudaBlockReduceExecPolicy : public SUNCudaExecPolicy {
   public:
    SUNCudaBlockReduceExecPolicy(int, int = 0, cudaStream_t = 0) {}
};
cudaError_t cudaMallocHost(void **p, size_t n);
cudaError_t cudaFreeHost(void *p);
cudaError_t cudaStreamCreate(cudaStream_t *s);
cudaError_t cudaStreamDestroy(cudaStream_t s);
int cusparseCreate(cusparseHandle_t *h);
int cusparseDestroy(cusparseHandle_t h);
int cusparseSetStream(cusparseHandle_t h, cudaStream_t s);
int cusolverSpCreate(cusolverSpHandle_t *h);
int cusolverSpDestroy(cusolverSpHandle_t h);
int cusolverSpSetStream(cusolverSpHandle_t h, cudaStream_t s);
N_Vector N_VNew_Cuda(sunindextype n, SUNContext ctx);
N_Vector N_VNewEmpty_Cuda(SUNContext ctx);
int N_VSetKernelExecPolicy_Cuda(N_Vector v, SUNCudaExecPolicy *a,
                                SUNCudaExecPolicy *b);
void N_VSetHostArrayPointer_Cuda(realtype *h, N_Vector v);
realtype *N_VGetHostArrayPointer_Cuda(N_Vector v);
void N_VCopyToDevice_Cuda(N_Vector v);
void N_VCopyFromDevice_Cuda(N_Vector v);
SUNMatrix SUNMatrix_cuSparse_NewBlockCSR(int nblocks, int m, int n, int nnz,
                                         cusparseHandle_t h, SUNContext ctx);
int SUNMatrix_cuSparse_SetFixedPattern(SUNMatrix A, booleantype yes);
SUNLinearSolver SUNLinSol_cuSolverSp_batchQR(N_Vector y, SUNMatrix A,
                                             cusolverSpHandle_t h,
                                             SUNContext ctx);
void SUNLinSol_cuSolverSp_batchQR_GetDeviceSpace(SUNLinearSolver S,
                                                 size_t *internal,
                                                 size_t *work);
#endif  // NAUNET_VERIF_CUDA_SHIM

#endif
