"""Shared simulator kernel: PRNG discipline, event log/digest, worker pool,
delta debugging, evidence and replay I/O, known-findings table.

Nothing in here reads a real clock for anything but wall-time *reporting* and
nothing draws from a PRNG except the per-run ``random.Random`` handed out by
``rng_for``.  All hashing is blake2b (never Python's ``hash``), so results do
not depend on PYTHONHASHSEED.
"""
from __future__ import annotations

import atexit
import faulthandler
import hashlib
import json
import multiprocessing
import os
import random
import shutil
import signal
import sys
import tempfile
import time
import traceback
from concurrent.futures import ProcessPoolExecutor, as_completed

VERIF = os.path.dirname(os.path.dirname(os.path.abspath(__file__)))
REPO = os.environ.get("NAUNET_REPO", "/repo")
GUARD = "NAUNET_VERIF"

EXIT_OK = 0
EXIT_VIOLATION = 1
EXIT_HARNESS = 2


class HarnessError(Exception):
    """The machinery itself failed (never reported as a VIOLATION)."""


def raised_in_harness(exc) -> bool:
    """True if the innermost frame of the exception lies in /verif: the simulator's own code
    tripped (e.g. over an attribute a refactoring renamed), which must never count as a violation."""
    tb = exc.__traceback__
    last = None
    while tb is not None:
        last = tb
        tb = tb.tb_next
    if last is None:
        return False
    fn = os.path.abspath(last.tb_frame.f_code.co_filename)
    return fn.startswith(VERIF + os.sep)


# --------------------------------------------------------------------------
# seeds
# --------------------------------------------------------------------------
def base_seed() -> int:
    try:
        return int(os.environ.get("VERIF_SEED", "0"))
    except ValueError:
        return 0


def hash64(*parts) -> int:
    h = hashlib.blake2b(digest_size=8)
    for p in parts:
        h.update(repr(p).encode())
        h.update(b"\x1f")
    return int.from_bytes(h.digest(), "big")


def rng_for(seed: int, prop: str, index: int, stream: str = "") -> random.Random:
    return random.Random(hash64(seed, prop, index, stream))


def digest(obj) -> str:
    return hashlib.blake2b(
        json.dumps(obj, sort_keys=True, default=repr).encode(), digest_size=12
    ).hexdigest()


class EventLog:
    """Append-only log of simulator events; its digest fingerprints a run."""

    def __init__(self):
        self.events = []
        self._h = hashlib.blake2b(digest_size=12)

    def add(self, *ev):
        self.events.append(ev)
        self._h.update(repr(ev).encode())
        self._h.update(b"\n")

    def digest(self) -> str:
        return self._h.hexdigest()

    def __len__(self):
        return len(self.events)


# --------------------------------------------------------------------------
# scratch space (outside /repo and /verif, removed at exit)
# --------------------------------------------------------------------------
_scratch = None
_scratch_owner = None


def scratch_root() -> str:
    global _scratch, _scratch_owner
    if _scratch is None or _scratch_owner != os.getpid() and not os.path.isdir(_scratch):
        base = os.environ.get("VERIF_SCRATCH")
        if not base:
            # tmpfs when available: renders write ~25 small files each
            base = "/dev/shm" if os.path.isdir("/dev/shm") and os.access("/dev/shm", os.W_OK) else tempfile.gettempdir()
        _scratch = tempfile.mkdtemp(prefix="naunet-verif-", dir=base)
        _scratch_owner = os.getpid()
        atexit.register(_cleanup_scratch, _scratch, os.getpid())
    return _scratch


def _cleanup_scratch(path, pid):
    if os.getpid() == pid:
        shutil.rmtree(path, ignore_errors=True)


def workers() -> int:
    try:
        n = int(os.environ.get("VERIF_WORKERS", "0"))
    except ValueError:
        n = 0
    if n <= 0:
        n = min(16, os.cpu_count() or 1)
    return n


# --------------------------------------------------------------------------
# worker pool: fork, per-task faulthandler watchdog, dead workers = harness error
# --------------------------------------------------------------------------
def _call(fn, arg, watchdog):
    if watchdog:
        faulthandler.dump_traceback_later(watchdog, exit=True)
    try:
        return ("ok", fn(arg))
    except HarnessError as e:
        return ("harness", f"{e}\n{traceback.format_exc()}")
    except BaseException as e:  # noqa: a bug in the harness, not in naunet
        return ("harness", f"{type(e).__name__}: {e}\n{traceback.format_exc()}")
    finally:
        if watchdog:
            faulthandler.cancel_dump_traceback_later()


def pool_map(fn, args, nworkers=None, watchdog=600, deadline=None, force_pool=False):
    """Run fn over args in forked workers, return results in argument order.

    A worker that dies, raises or trips the watchdog makes the whole call raise
    HarnessError.  ``deadline`` (absolute time.time()) stops *submitting* new
    work; tasks not run are returned as None.
    """
    args = list(args)
    nworkers = nworkers or workers()
    results = [None] * len(args)
    if not force_pool and (nworkers <= 1 or len(args) <= 1):
        for i, a in enumerate(args):
            if deadline and time.time() > deadline:
                break
            kind, val = _call(fn, a, 0)
            if kind != "ok":
                raise HarnessError(val)
            results[i] = val
        return results
    ctx = multiprocessing.get_context("fork")
    sys.stdout.flush()
    sys.stderr.flush()
    with ProcessPoolExecutor(max_workers=nworkers, mp_context=ctx, initializer=_pdeathsig) as ex:
        futs = {}
        it = iter(enumerate(args))
        pending = 0

        def submit_some():
            nonlocal pending
            while pending < nworkers * 2:
                if deadline and time.time() > deadline:
                    return
                try:
                    i, a = next(it)
                except StopIteration:
                    return
                futs[ex.submit(_call, fn, a, watchdog)] = i
                pending += 1

        submit_some()
        while futs:
            done = next(as_completed(list(futs)))
            i = futs.pop(done)
            pending -= 1
            try:
                kind, val = done.result()
            except Exception as e:  # BrokenProcessPool etc.
                for f in futs:
                    f.cancel()
                raise HarnessError(f"worker died on task {i}: {type(e).__name__}: {e}")
            if kind != "ok":
                for f in futs:
                    f.cancel()
                raise HarnessError(f"task {i}: {val}")
            results[i] = val
            submit_some()
    return results


# --------------------------------------------------------------------------
# process-level isolation: run fn in a forked child of the *current* process.
# If the caller is a pristine post-import interpreter that never executes the
# system under test itself, every call starts from the state of a fresh process.
# --------------------------------------------------------------------------
def forked_call(fn, *args, timeout=900):
    import pickle
    import select

    r, w = os.pipe()
    sys.stdout.flush()
    sys.stderr.flush()
    pid = os.fork()
    if pid == 0:
        os.close(r)
        code = 0
        try:
            try:
                payload = ("ok", fn(*args))
            except HarnessError as e:
                payload = ("harness", str(e))
            except BaseException as e:  # noqa
                payload = ("harness", f"{type(e).__name__}: {e}\n{traceback.format_exc()}")
            data = pickle.dumps(payload)
            with os.fdopen(w, "wb") as f:
                f.write(data)
        except BaseException:  # noqa
            code = 1
        os._exit(code)
    os.close(w)
    chunks = []
    deadline = time.time() + timeout
    try:
        while True:
            left = deadline - time.time()
            if left <= 0:
                os.kill(pid, signal.SIGKILL)
                os.waitpid(pid, 0)
                raise HarnessError(f"forked call exceeded {timeout}s")
            ready, _, _ = select.select([r], [], [], min(left, 5.0))
            if ready:
                b = os.read(r, 1 << 20)
                if not b:
                    break
                chunks.append(b)
    finally:
        os.close(r)
    os.waitpid(pid, 0)
    if not chunks:
        raise HarnessError("forked call died without a result")
    kind, val = pickle.loads(b"".join(chunks))
    if kind != "ok":
        raise HarnessError(val)
    return val


# --------------------------------------------------------------------------
# delta debugging over a list (keeps order); test(candidate) -> True if still fails
# --------------------------------------------------------------------------
def ddmin(items, test, budget=400):
    items = list(items)
    calls = 0
    n = 2
    while len(items) >= 2 and calls < budget:
        chunk = max(1, len(items) // n)
        reduced = False
        for start in range(0, len(items), chunk):
            cand = items[:start] + items[start + chunk:]
            if not cand:
                continue
            calls += 1
            if test(cand):
                items = cand
                n = max(n - 1, 2)
                reduced = True
                break
            if calls >= budget:
                break
        if not reduced:
            if chunk == 1:
                break
            n = min(len(items), n * 2)
    # final one-by-one pass
    i = 0
    while i < len(items) and calls < budget and len(items) > 1:
        cand = items[:i] + items[i + 1:]
        calls += 1
        if test(cand):
            items = cand
        else:
            i += 1
    return items


# --------------------------------------------------------------------------
# evidence / replay / known findings
# --------------------------------------------------------------------------
def write_evidence(prop, tier, seed, level, coverage, wall_s, violations, assumptions):
    os.makedirs(os.path.join(VERIF, "evidence"), exist_ok=True)
    path = os.path.join(VERIF, "evidence", f"{prop}.json")
    doc = {
        "property_id": prop,
        "tier": tier,
        "seed": int(seed),
        "level": level,
        "coverage": coverage,
        "assumptions": assumptions,
        "wall_s": round(float(wall_s), 3),
        "violations": int(violations),
    }
    tmp = path + ".tmp"
    with open(tmp, "w") as f:
        json.dump(doc, f, indent=1, sort_keys=True, default=repr)
        f.write("\n")
    os.replace(tmp, path)
    return path


def write_replay(prop, seed, index, doc) -> str:
    d = os.path.join(VERIF, "replays")
    os.makedirs(d, exist_ok=True)
    path = os.path.join(d, f"{prop}-{seed}-{index}.json")
    doc = dict(doc)
    doc["property"] = prop
    with open(path, "w") as f:
        json.dump(doc, f, indent=1, sort_keys=True, default=repr)
        f.write("\n")
    return path


def load_known_findings(prop=None):
    # the override exists for `./check selftest known` only; the registered commands never set it
    path = os.environ.get("VERIF_KNOWN_FINDINGS_FILE") or os.path.join(VERIF, "known_findings.json")
    if not os.path.exists(path):
        return []
    with open(path) as f:
        doc = json.load(f)
    out = [e for e in doc.get("findings", []) if e.get("status") == "open"]
    if prop:
        out = [e for e in out if e.get("property") == prop]
    return out


def tier_arg(argv, default="quick"):
    t = os.environ.get("VERIF_TIER")
    for a in argv:
        if a in ("quick", "thorough"):
            t = a
    return t or default


class Timer:
    def __init__(self):
        self.t0 = time.time()

    def s(self):
        return time.time() - self.t0


def _pdeathsig():
    """Pool initializer: a worker dies when its parent does (Linux prctl)."""
    try:
        import ctypes

        ctypes.CDLL("libc.so.6", use_errno=True).prctl(1, signal.SIGKILL)
    except Exception:
        pass


def exit_on_term():
    """A wall-clock kill (SIGTERM from `timeout`) never yields exit 0."""

    def _h(signum, frame):
        sys.stderr.write("HARNESS: terminated by signal\n")
        os._exit(EXIT_HARNESS)

    try:
        signal.signal(signal.SIGTERM, _h)
    except Exception:
        pass


def corpus_files(prop):
    """Regression corpus: minimised replay files of violations found earlier (against seeded changes
    and against defects since repaired).  Each quick/thorough run replays them all on the current
    tree; a scenario that reproduces is a violation like any other.  Files are data, committed by
    hand (tools/recheck_seeds.py --save-corpus), never written by a check."""
    d = os.path.join(VERIF, "corpus", prop)
    if os.environ.get("VERIF_NO_CORPUS") or not os.path.isdir(d):
        return []
    return [os.path.join(d, f) for f in sorted(os.listdir(d)) if f.endswith(".json")]
