"""Regenerates /verif/MANIFEST.json (kept in a script so that the not_applicable
reasons and the check entries stay in one reviewed place)."""
import json
import os

VERIF = os.path.dirname(os.path.dirname(os.path.abspath(__file__)))

NA = {
    "C01": "pure function network -> generated text -> polynomial, quantified over inputs and abundance vectors; no schedule, clock, fault or history on the path, so deterministic simulation has nothing to control (DESIGN.md section 6)",
    "C02": "a polynomial identity (Jacobian = derivative of the RHS) over inputs; nothing to interleave, delay or fail",
    "C03": "static agreement between three renderings of one input and in-bounds indices of emitted text; not a property of an execution under faults or schedules",
    "C04": "algebraic identity of the emitted polynomials for every abundance vector and rate value; integrating in simulated time would only sample it and involves no nondeterminism to own",
    "C05": "pure map (format, type, alpha, beta, gamma, T, Av, zeta) -> number; input-space only",
    "C06": "pure map (temperature window, T) -> active/zero; the boundary is a value boundary, not a timing one",
    "C07": "pure text -> reactions decoding; files are read with a single readlines(), so no partial-read state exists for a fault to expose and the statement says nothing about I/O errors",
    "C08": "pure (name, installed tables) -> composition; which tables are installed when several networks coexist is the schedule-dependent part and is exercised under C17/C14, the tokenisation claim itself is input-space",
    "C09": "cross-artefact consistency of one rendering of one input; no history or interleaving in the statement",
    "C10": "a compile-time property of emitted text per (format, grain model, back-end) combination; no runtime behaviour to simulate",
    "C11": "pure rate-law map like C05; input-space only",
    "C12": "pure expression -> expression translation quantified over programs/inputs",
    "C13": "pure (network, modifier set) -> text; the only stateful step (render re-indexing an unindexed network) is idempotent within the call and its repeat-render aspect is covered by C17",
    "C15": "pure list -> report; no history beyond one removal, which C14's de-duplication operation exercises without judging the report",
    "C16": "pure numeric map on (network, abundance vector); the linear solve is synchronous and the statement has no failure clause",
    "C18": "pure network -> text -> network round trip; the statement does not speak about interrupted writes, so injecting torn writes would test a promise naunet never made",
    "C20": "pure option strings -> TOML -> network round trip; the CLI's only environmental dependence (cwd, ambient tables) is C17's subject",
}

CHECKS = {
    "C14": {
        "property_id": "C14",
        "quick_cmd": "timeout 900 ./check C14 quick",
        "thorough_cmd": "timeout 7200 ./check C14 thorough",
        "evidence_file": "evidence/C14.json",
        "replay_cmd_template": "./check --replay {path}",
        "engine": "pysim",
        "level_claimed": {
            "category": "exploration",
            "text": "Seeded edit histories (add instance / string / file in five text formats (KROME files with and without their own @format column declaration), remove by index, index list, instance, instance list, allowed and required setters, de-duplication, reindex) on 1-3 live networks of six element-list configurations (mixed and upper case, '#' and 'G' ice prefixes, ortho/para names differing only in case, sibling networks sharing their reaction objects), interleaved by a seeded scheduler with each other and with foreign writers of the process-global parser tables, with open/read/parse faults on add-from-file; after every event every live network is compared with a recompute-from-scratch reference model over the simulator's own species identities. One run in five drives the 'naunet extend' pipeline in-process and checks its output files. A regression corpus of minimised histories of earlier violations is replayed after the exploration. Sampling, not proof.",
            "design_ref": "DESIGN.md section 3",
        },
        "level_note": "Trusted: the reference model (sim/model.py, ~110 lines, no naunet imports), the spelling->identity tables of sim/world.py, and the reading of 'removal by instance' as the documented reaction equality applied to held reactions. Call-boundary interleavings only (naunet is single-threaded and never yields inside a call).",
        "technique": "deterministic simulation: seeded scheduler over multi-session edit histories with I/O fault injection, step-by-step refinement check against an executable reference model, ddmin-minimised replay files",
    },
    "C17": {
        "property_id": "C17",
        "quick_cmd": "timeout 1200 ./check C17 quick",
        "thorough_cmd": "timeout 7200 ./check C17 thorough",
        "evidence_file": "evidence/C17.json",
        "replay_cmd_template": "./check --replay {path}",
        "engine": "pysim",
        "level_claimed": {
            "category": "exploration",
            "text": "Scripted sessions drawn from a library of ~100 literal network descriptions plus three systematic near twins of each (one perturbation of state that is global or shared: a coefficient, a KROME directive, a binding energy, a replacement table, int vs float bounds, list order ...) (API networks in kida/umist/naunet/krome formats with mixed-case and upper-case element lists, '#' and 'G' surface prefixes, grain models, rate/ODE modifiers, KROME @var/@common/@format directives; CLI projects with replacement tables, binding energies, photon yields) run in one interpreter in two strata: an enumerated one (every description chained with its near twins and with the members of its family, in both orders and with all networks constructed first) and a seeded one where 2-4 sessions are interleaved step by step by a seeded scheduler with foreign writers of the parser tables, simulated-clock jumps across month/year ends, aborted neighbours (corrupted file, abandoned session) and failed-and-retried steps of the victim (open failure, disk-full during render). Every rendering - first, repeated, after an edit - must be byte-identical (sha256 per file) to the rendering of the same description alone in a pristine interpreter under three reference hash seeds; the simulation itself runs under eight more. Solo-only variants (a sibling network built from the first one's reactions, a reused TemplateLoader with edits that leave the reactions alone, read-only write / patch-generation steps) are judged against the same script without them. A regression corpus of minimised schedules of earlier violations is replayed after the exploration. Sampling, not proof.",
            "design_ref": "DESIGN.md section 4",
        },
        "level_note": "Trusted: the same tree's own solo rendering as reference (C17 cannot say whether it is right, only whether it is the same); a forked child of a pristine post-import interpreter counts as a fresh interpreter. Victim sessions always carry explicit element lists; bare Species/Reaction constructions are atomic with installing the session's lists.",
        "technique": "deterministic simulation: seeded interleaving of multi-session build/edit/render scripts with fault and clock injection, differential oracle against solo fresh-interpreter renderings, ddmin-minimised replay schedules",
    },
    "C19": {
        "property_id": "C19",
        "quick_cmd": "timeout 900 ./check C19 quick",
        "thorough_cmd": "timeout 7200 ./check C19 thorough",
        "evidence_file": "evidence/C19.json",
        "replay_cmd_template": "./check --replay {path}",
        "engine": "cxxsim",
        "level_claimed": {
            "category": "fault_enumeration",
            "text": "The rendered Naunet::Solve/HandleError/PyWrapSolve (cvode dense, sparse, cusparse; odeint) of the current tree run unmodified against a scripted mock integrator whose solution is y(t)=y0+t, so the final state measures integrated time. A seed-independent stratum places one fault at every (recovery level, sub-step) call slot for every flag class and partial-progress class, every failing re-initialisation level and every failing set-up call; on top of it a seeded search samples multi-fault sequences, several Solve calls per object, Reset with another number of systems, Finalize+Init, overlapping object lifetimes, persistent failures and both entry points, over twelve renderings (back-end x kind of network). The error record accumulates: a failing call's initial state must be logged and still be there at the next object boundaries. A regression corpus of minimised scenarios of earlier violations is replayed after the exploration. Sampling, not proof: a clean batch is evidence.",
            "design_ref": "DESIGN.md section 5",
        },
        "level_note": "Trusted: the mock's model of CVODE return conventions (flag<0 on failure, y/tret at the last time reached - short of the target, except in the ladder stratum's fifth progress class where the flag is raised after the whole target was reached -, CV_ILL_INPUT for tout<=t) and of Boost integrate_adaptive's observer protocol; real SUNDIALS/Boost/CUDA are not installed. Header shims in sim/cxx/shim.",
        "technique": "deterministic simulation: seeded integrator-fault sequences against a scripted mock CVODE/odeint, oracle over the recorded call history",
    },
}


PENDING = {
    "C14": "applicable and designed (DESIGN.md section 3); the pysim check is not built yet at this commit",
    "C17": "applicable and designed (DESIGN.md section 4); the pysim check is not built yet at this commit",
}


def main():
    na = dict(NA)
    for k, v in PENDING.items():
        if k not in CHECKS:
            na[k] = v
    manifest = {
        "version": 1,
        "setup_cmd": "/venv/bin/python -c \"import jinja2, cleo, tomlkit, tqdm\" && g++ --version > /dev/null && chmod +x /verif/check",
        "hooks": {
            "guard": "NAUNET_VERIF",
            "enable": "no source hooks are needed: every seam (clock, open, tqdm, stdout, cwd, hash seed, integrator API) is taken from outside by module-attribute patching in /verif/sim/seams.py or by header shims in /verif/sim/cxx; checks import naunet from /repo's working tree",
            "baseline_off_cmd": "cd /repo && env -u NAUNET_VERIF /venv/bin/python -m pytest -ra -q -p no:cacheprovider --timeout=900 --continue-on-collection-errors",
            "source_commits": [],
            "add_only": True,
        },
        "engines": [
            {"name": "pysim", "path": "sim/c14.py", "serves_properties": ["C14", "C17"],
             "kind_free_text": "in-process multi-session simulator of the Python package: seeded scheduler, patched open/clock/tqdm seams, reference models, ddmin, replay files"},
            {"name": "cxxsim", "path": "sim/c19.py", "serves_properties": ["C19"],
             "kind_free_text": "rendered C++ compiled against a scripted mock integrator; seeded fault sequences, ddmin, replay files"},
        ],
        "checks": [CHECKS[k] for k in sorted(CHECKS)],
        "notes": "See DESIGN.md. Exit codes: 0 held, 1 VIOLATION (replay file printed), 2 harness error. Known findings: known_findings.json (10 fixed, 0 open). Regression corpus: corpus/<property>/*.json, replayed by every run (VERIF_NO_CORPUS=1 switches it off). Seeded breaking changes used to evaluate the checks: seeded/.",
        "not_applicable": [{"property_id": k, "reason": v} for k, v in sorted(na.items())],
    }
    with open(os.path.join(VERIF, "MANIFEST.json"), "w") as f:
        json.dump(manifest, f, indent=1)
        f.write("\n")


if __name__ == "__main__":
    main()
