"""C14 reference model: recompute-from-scratch semantics of a chemical network
over abstract species.  No naunet imports, nothing incremental.

An *entry* is {"uid": int, "content": (R keys, P keys, tmin, tmax, rtype, tag)}.
"""
from __future__ import annotations

from collections import Counter

RT_UNKNOWN = 999


def content_species(content):
    return list(content[0]) + list(content[1])


def documented_equal(a, b):
    """Reaction equality as documented: same reactant and product multisets, same
    temperature window, same type or either side of unknown type."""
    return (
        Counter(a[0]) == Counter(b[0])
        and Counter(a[1]) == Counter(b[1])
        and a[2] == b[2]
        and a[3] == b[3]
        and (a[4] == b[4] or a[4] == RT_UNKNOWN or b[4] == RT_UNKNOWN)
    )


class ModelNetwork:
    def __init__(self, allowed=None, required=None):
        self.cands = []  # every entry added and not removed, in insertion order
        self.order = []  # uids currently held, in the network's order
        self.allowed = set(allowed) if allowed else None
        self.required = list(required or [])

    # -- derived, always recomputed ------------------------------------------
    def admissible(self, content):
        return self.allowed is None or all(s in self.allowed for s in content_species(content))

    def entry(self, uid):
        for e in self.cands:
            if e["uid"] == uid:
                return e
        raise KeyError(uid)

    def held(self):
        return [self.entry(u) for u in self.order]

    def held_expected_set(self):
        return sorted(e["uid"] for e in self.cands if self.admissible(e["content"]))

    def species(self):
        s = set()
        for e in self.held():
            s.update(content_species(e["content"]))
        s.update(self.required)
        return s

    def reactants(self):
        return {x for e in self.held() for x in e["content"][0]}

    def products(self):
        return {x for e in self.held() for x in e["content"][1]}

    def source_sink(self):
        r, p = self.reactants(), self.products()
        return r - p, p - r

    def where(self, key, mode):
        out = []
        for i, e in enumerate(self.held()):
            c = e["content"]
            if (mode in ("all", "reactant") and key in c[0]) or (mode in ("all", "product") and key in c[1]):
                out.append(i)
        return out

    # -- edits ----------------------------------------------------------------
    def add(self, uid, content):
        e = {"uid": uid, "content": content}
        self.cands.append(e)
        if self.admissible(content):
            self.order.append(uid)
            return True
        return False

    def _drop(self, uids):
        uids = set(uids)
        self.order = [u for u in self.order if u not in uids]
        self.cands = [e for e in self.cands if e["uid"] not in uids]

    def remove_index(self, i):
        n = len(self.order)
        if -n <= i < n:
            self._drop([self.order[i]])
            return True
        return False

    def remove_indices(self, idxs):
        self._drop([u for k, u in enumerate(self.order) if k in set(idxs)])

    def remove_equal(self, contents):
        gone = [e["uid"] for e in self.held() if any(documented_equal(e["content"], c) for c in contents)]
        self._drop(gone)

    def set_allowed(self, keys):
        self.allowed = set(keys) if keys else None
        # order is unspecified by the property: callers re-synchronise it
        self.order = [e["uid"] for e in self.cands if self.admissible(e["content"])]

    def set_required(self, keys):
        self.required = list(keys)

    def state_key(self):
        return (tuple(self.order), tuple(sorted(self.allowed)) if self.allowed else None, tuple(self.required),
                tuple(sorted(e["uid"] for e in self.cands)))
