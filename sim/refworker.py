"""Reference renderer for C17.

A FRESH interpreter (the "zygote", PYTHONHASHSEED chosen by the caller) imports
naunet and does nothing else; for every description it forks a child that runs
exactly that one session, alone, fault-free, at the fixed reference clock, and
writes the artefact digests.  A forked child of the pristine post-import
interpreter has precisely the state of a fresh interpreter, without paying the
interpreter start-up once per description.

usage: python refworker.py <tasks.json>      tasks = [[desc.json, out.json, workdir], ...]
"""
import json
import os
import sys

VERIF = os.path.dirname(os.path.dirname(os.path.abspath(__file__)))
sys.path.insert(0, VERIF)

from sim import c17_session, seams  # noqa: E402


def run_one(desc_path, out_path, workdir):
    desc = json.load(open(desc_path))
    sess = c17_session.Session(desc, workdir)
    steps = []
    while not sess.done():
        st = sess.peek()
        try:
            sess.step()
            steps.append("ok")
        except BaseException as e:  # noqa
            steps.append(f"exc:{type(e).__name__}:{str(e)[:200]}")
            if st["s"] in ("render", "to_code", "cli_render", "export"):
                sess.skip_failed_render(e)
            else:
                sess.pc += 1
    out = {"id": desc["id"], "hashseed": os.environ.get("PYTHONHASHSEED"), "steps": steps,
           "renders": [{"digest": c17_session.artefact_digest(r["art"]), "art": r["art"]} if "art" in r else r
                       for r in sess.results]}
    tmp = out_path + ".tmp"
    json.dump(out, open(tmp, "w"))
    os.replace(tmp, out_path)


def main():
    tasks = json.load(open(sys.argv[1]))
    par = int(os.environ.get("REF_PARALLEL", "8"))
    seams.install()  # pristine post-import state; nothing else runs in this process
    running = {}
    queue = list(tasks)
    failed = 0
    while queue or running:
        while queue and len(running) < par:
            t = queue.pop(0)
            pid = os.fork()
            if pid == 0:
                code = 0
                try:
                    run_one(*t)
                except BaseException:  # noqa
                    import traceback

                    traceback.print_exc()
                    code = 1
                sys.stdout.flush()
                sys.stderr.flush()
                os._exit(code)
            running[pid] = t
        pid, status = os.wait()
        running.pop(pid, None)
        if status != 0:
            failed += 1
    sys.exit(1 if failed else 0)


if __name__ == "__main__":
    main()
