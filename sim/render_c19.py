"""Render the back-ends whose Solve is simulated by cxxsim, from the repository's
current working tree.  Run as:  python render_c19.py <repo> <outdir>
Executed in its own interpreter so the checker's process never imports naunet.
"""
import contextlib
import io
import logging
import os
import sys

repo, out = sys.argv[1], sys.argv[2]
sys.path.insert(0, repo)
logging.disable(logging.CRITICAL)

import naunet  # noqa: E402

assert os.path.realpath(os.path.dirname(naunet.__file__)) == os.path.realpath(
    os.path.join(repo, "naunet")
), (naunet.__file__, repo)

import naunet.network as nw  # noqa: E402
import naunet.templateloader as tlmod  # noqa: E402
from naunet.network import Network  # noqa: E402
from naunet.reactions.reaction import Reaction  # noqa: E402
from naunet.reactiontype import ReactionType  # noqa: E402
from naunet.templateloader import TemplateLoader  # noqa: E402

nw.tqdm = lambda it, **kw: it
tlmod.tqdm = lambda it, **kw: it

R = Reaction
T = ReactionType


def network(kind):
    lists = dict(elements=["e", "H", "He", "C", "O"], pseudo_elements=["CR", "Photon"])
    if kind == "empty":
        return Network(**lists)
    if kind == "single":
        net = Network(**lists)
        net.add_reaction(R(["H", "CR"], ["H"], alpha=1.0, reaction_type=T.GAS_COSMICRAY))
        return net
    if kind == "grain":
        net = Network(grain_model="hh93", **lists)
        for r in (R(["C", "O"], ["CO"], alpha=1e-10, reaction_type=T.GAS_TWOBODY),
                  R(["CO"], ["#CO"], alpha=1.0, reaction_type=T.GRAIN_FREEZE),
                  R(["#CO"], ["CO"], alpha=1.0, reaction_type=T.GRAIN_DESORB_THERMAL),
                  R(["e-", "GRAIN0"], ["GRAIN-"], alpha=1.0, reaction_type=T.GRAIN_ECAPTURE),
                  R(["C+", "GRAIN-"], ["C", "GRAIN0"], alpha=1.0, reaction_type=T.GRAIN_RECOMINE)):
            net.add_reaction(r)
        return net
    # four species; "thermal" adds the gas temperature (two cooling processes): NEQUATIONS = NSPECIES + 1
    net = Network(cooling=["CIC_HI", "RC_HII"], **lists) if kind == "thermal" else Network(**lists)
    net.add_reaction(R(["H", "H"], ["H2"], alpha=1e-17, reaction_type=T.GAS_TWOBODY))
    net.add_reaction(R(["H2", "CR"], ["H", "H"], alpha=1.0, reaction_type=T.GAS_COSMICRAY))
    net.add_reaction(R(["H", "CR"], ["H+", "e-"], alpha=0.5, reaction_type=T.GAS_COSMICRAY))
    net.add_reaction(R(["H+", "e-"], ["H"], alpha=3e-12, beta=-0.7, reaction_type=T.GAS_TWOBODY))
    return net


# the generated Solve is a template: render it for several KINDS of network, not just one
VARIANTS = [
    ("cvode_dense", "cvode", "dense", "cpu", "thermal"),
    ("cvode_sparse", "cvode", "sparse", "cpu", "thermal"),
    ("cvode_cusparse", "cvode", "cusparse", "gpu", "thermal"),
    ("odeint", "odeint", "rosenbrock4", "cpu", "thermal"),
    ("cvode_dense_plain", "cvode", "dense", "cpu", "plain"),
    ("cvode_dense_single", "cvode", "dense", "cpu", "single"),
    ("cvode_dense_empty", "cvode", "dense", "cpu", "empty"),
    ("cvode_dense_grain", "cvode", "dense", "cpu", "grain"),
    ("cvode_sparse_grain", "cvode", "sparse", "cpu", "grain"),
    ("cvode_cusparse_plain", "cvode", "cusparse", "gpu", "plain"),
    ("odeint_plain", "odeint", "rosenbrock4", "cpu", "plain"),
    ("odeint_single", "odeint", "rosenbrock4", "cpu", "single"),
]

for name, solver, method, device, kind in VARIANTS:
    net = network(kind)
    tl = TemplateLoader(solver, method, device)
    with contextlib.redirect_stdout(io.StringIO()):
        tl.render("c19sim", net, path=os.path.join(out, name), save=True)
print("rendered", len(VARIANTS))
