"""Render the back-ends whose Solve is simulated by cxxsim, from the repository's
current working tree.  Run as:  python render_c19.py <repo> <outdir>
Executed in its own interpreter so the checker's process never imports naunet.
"""
import contextlib
import io
import logging
import os
import sys

repo, out = sys.argv[1], sys.argv[2]
sys.path.insert(0, repo)
logging.disable(logging.CRITICAL)

import naunet  # noqa: E402

assert os.path.realpath(os.path.dirname(naunet.__file__)) == os.path.realpath(
    os.path.join(repo, "naunet")
), (naunet.__file__, repo)

import naunet.network as nw  # noqa: E402
import naunet.templateloader as tlmod  # noqa: E402
from naunet.network import Network  # noqa: E402
from naunet.reactions.reaction import Reaction  # noqa: E402
from naunet.reactiontype import ReactionType  # noqa: E402
from naunet.templateloader import TemplateLoader  # noqa: E402

nw.tqdm = lambda it, **kw: it
tlmod.tqdm = lambda it, **kw: it

VARIANTS = [
    ("cvode_dense", "cvode", "dense", "cpu"),
    ("cvode_sparse", "cvode", "sparse", "cpu"),
    ("cvode_cusparse", "cvode", "cusparse", "gpu"),
    ("odeint", "odeint", "rosenbrock4", "cpu"),
]

for name, solver, method, device in VARIANTS:
    # four species plus the gas temperature (two cooling processes): NEQUATIONS = NSPECIES + 1
    net = Network(elements=["e", "H", "He", "C", "O"], pseudo_elements=["CR", "Photon"], cooling=["CIC_HI", "RC_HII"])
    net.add_reaction(Reaction(["H", "H"], ["H2"], alpha=1e-17, reaction_type=ReactionType.GAS_TWOBODY))
    net.add_reaction(Reaction(["H2", "CR"], ["H", "H"], alpha=1.0, reaction_type=ReactionType.GAS_COSMICRAY))
    net.add_reaction(Reaction(["H", "CR"], ["H+", "e-"], alpha=0.5, reaction_type=ReactionType.GAS_COSMICRAY))
    net.add_reaction(
        Reaction(["H+", "e-"], ["H"], alpha=3e-12, beta=-0.7, reaction_type=ReactionType.GAS_TWOBODY)
    )
    tl = TemplateLoader(solver, method, device)
    with contextlib.redirect_stdout(io.StringIO()):
        tl.render("c19sim", net, path=os.path.join(out, name), save=True)
print("rendered", len(VARIANTS))
