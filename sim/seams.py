"""Seams the simulator owns inside a worker interpreter: import naunet from the
repository under test, replace clock / open / tqdm / logging at module level
(no repository hook needed), and reset the process-global tables to the state
of a fresh interpreter between runs.
"""
from __future__ import annotations

import builtins
import contextlib
import datetime as _dt
import errno
import io
import logging
import os
import sys

from . import kernel as K

N = None  # namespace of naunet modules, filled by install()


class _NS:
    pass


class FaultPlan:
    """Consulted by the patched open(); faults fire at most once each.

    entries: {"kind": "open-fail"|"read-fail"|"write-enospc", "match": substring of
    the path, "mode": "r"|"w", "nth": fire on the n-th matching open (1-based)}
    """

    def __init__(self):
        self.entries = []
        self.fired = []
        self.opens = 0

    def arm(self, **e):
        e = dict(e)
        e["seen"] = 0
        self.entries.append(e)

    def clear(self):
        self.entries = []

    def check(self, path, mode):
        self.opens += 1
        m = "w" if ("w" in mode or "a" in mode) else "r"
        for e in self.entries:
            if e.get("done") or e["mode"] != m or e["match"] not in str(path):
                continue
            e["seen"] += 1
            if e["seen"] == e.get("nth", 1):
                e["done"] = True
                self.fired.append((e["kind"], os.path.basename(str(path))))
                return e
        return None


PLAN = FaultPlan()


class _FailingReader(io.StringIO):
    def readlines(self, *a):
        raise OSError(errno.EIO, "simulated I/O error while reading")

    def read(self, *a):
        raise OSError(errno.EIO, "simulated I/O error while reading")


class _EnospcWriter:
    """Accepts `limit` characters, then fails like a full disk (short write)."""

    def __init__(self, real, limit):
        self._f = real
        self._left = limit

    def write(self, s):
        if len(s) > self._left:
            self._f.write(s[: self._left])
            self._f.flush()
            self._left = 0
            raise OSError(errno.ENOSPC, "simulated: no space left on device")
        self._left -= len(s)
        return self._f.write(s)

    def __enter__(self):
        return self

    def __exit__(self, *a):
        self._f.close()
        return False

    def __getattr__(self, k):
        return getattr(self._f, k)


def sim_open(path, mode="r", *a, **kw):
    e = PLAN.check(path, mode)
    if e is not None:
        if e["kind"] == "open-fail":
            raise OSError(e.get("errno", errno.EIO), "simulated open failure", str(path))
        if e["kind"] == "read-fail":
            return _FailingReader("")
        if e["kind"] == "write-enospc":
            return _EnospcWriter(builtins.open(path, mode, *a, **kw), e.get("limit", 0))
    return builtins.open(path, mode, *a, **kw)


class SimClock:
    """The only clock naunet sees."""

    def __init__(self):
        self.now_value = _dt.datetime(2024, 1, 15, 12, 0, 0)
        self.reads = 0

    def set(self, value):
        self.now_value = value

    def advance(self, seconds):
        self.now_value = self.now_value + _dt.timedelta(seconds=seconds)


CLOCK = SimClock()


class SimDatetime(_dt.datetime):
    @classmethod
    def now(cls, tz=None):
        CLOCK.reads += 1
        v = CLOCK.now_value
        return cls(v.year, v.month, v.day, v.hour, v.minute, v.second)


def _identity_tqdm(it=None, *a, **kw):
    return it


def install(repo=None):
    """Import naunet from `repo` and take over its seams. Idempotent."""
    global N
    if N is not None:
        return N
    repo = repo or K.REPO
    if sys.path[0] != repo:
        sys.path.insert(0, repo)
    logging.disable(logging.CRITICAL)
    import naunet  # noqa

    got = os.path.realpath(os.path.dirname(naunet.__file__))
    want = os.path.realpath(os.path.join(repo, "naunet"))
    if got != want:
        raise K.HarnessError(f"naunet imported from {got}, expected {want}")
    import naunet.chemistrydata as chemistrydata
    import naunet.configuration as configuration
    import naunet.network as network
    import naunet.patches as patches
    import naunet.species as species
    import naunet.templateloader as templateloader
    from naunet.reactions.kromereaction import KROMEReaction
    from naunet.reactions.reaction import Reaction
    from naunet.reactiontype import ReactionType

    ns = _NS()
    ns.naunet = naunet
    ns.chemistrydata = chemistrydata
    ns.configuration = configuration
    ns.network = network
    ns.patches = patches
    ns.species = species
    ns.templateloader = templateloader
    ns.Network = network.Network
    ns.Species = species.Species
    ns.Reaction = Reaction
    ns.ReactionType = ReactionType
    ns.KROMEReaction = KROMEReaction
    ns.builtin_reaction_class = dict(network.supported_reaction_class)
    ns.builtin_grain_model = dict(network.supported_grain_model)

    network.tqdm = _identity_tqdm
    templateloader.tqdm = _identity_tqdm
    network.open = sim_open
    templateloader.open = sim_open
    templateloader.datetime = SimDatetime
    configuration.datetime = SimDatetime
    N = ns
    ns.snapshot = _snapshot()
    return ns


_KROME_ATTRS = ("reacformat", "_user_commons", "_user_vars")
_ABSENT = object()


def _snapshot():
    """State of the process-global tables right after import (taken once, by install())."""
    import copy

    S = N.Species
    return {
        "elements": list(S._known_elements),
        "pseudo": list(S._known_pseudoelements),
        "replacement": dict(S._replacement),
        "krome": {a: copy.deepcopy(N.KROMEReaction.__dict__[a]) if a in N.KROMEReaction.__dict__ else _ABSENT
                  for a in _KROME_ATTRS},
    }


def reset_globals():
    """Bring the process-global tables back to what they were right after import - the state
    of a fresh process.  Runs execute in forked children of a pristine post-import process, so
    this is normally the identity; it matters only where a caller runs several things in one
    process (selftests, the extend oracle's 'new CLI process')."""
    import copy

    snap = N.snapshot
    S = N.Species
    S._known_elements = list(snap["elements"])
    S._known_pseudoelements = list(snap["pseudo"])
    S._replacement = dict(snap["replacement"])
    cd = N.chemistrydata
    cd.user_binding_energy.clear()
    cd.user_photon_yield.clear()
    cd.user_enthalpy.clear()
    for attr, val in snap["krome"].items():
        if val is _ABSENT:
            if attr in N.KROMEReaction.__dict__:
                delattr(N.KROMEReaction, attr)
        else:
            setattr(N.KROMEReaction, attr, copy.deepcopy(val))
    N.network.supported_reaction_class.clear()
    N.network.supported_reaction_class.update(N.builtin_reaction_class)
    N.network.supported_grain_model.clear()
    N.network.supported_grain_model.update(N.builtin_grain_model)
    PLAN.clear()
    PLAN.fired = []
    PLAN.opens = 0


@contextlib.contextmanager
def quiet():
    """stdout/stderr of naunet (print of rendered paths, tqdm) go to a sink."""
    sink = io.StringIO()
    with contextlib.redirect_stdout(sink), contextlib.redirect_stderr(sink):
        yield sink
