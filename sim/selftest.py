"""Self-tests of the simulator itself.

  ./check selftest determinism [C14|C17|C19]   same seed twice, different worker counts and
                                               interpreter hash seeds -> identical batch digests
  ./check selftest known [C14|C17|C19]         a re-opened defect listed as open finding -> KNOWN-FINDING, exit 0;
                                               plus an unrelated change -> VIOLATION, exit 1
  ./check selftest mutants [C14|C17|C19] [--with-tests] [--only id]
                                               each mutant applied to a scratch copy of /repo must
                                               make the quick tier print a VIOLATION
Scratch copies live under the scratch root (outside /repo and /verif) and are removed.
"""
from __future__ import annotations

import json
import os
import shutil
import subprocess
import sys

from . import kernel as K
from .mutants import MUTANTS

SMALL = {"C14": {"C14_RUNS": "3000"}, "C17": {"C17_RUNS": "160"}, "C19": {"C19_RUNS": "60000"}}


def run_check(prop, env_extra, tier="quick", timeout=1800):
    env = dict(os.environ)
    env.update(env_extra)
    p = subprocess.run([os.path.join(K.VERIF, "check"), prop, tier], capture_output=True, text=True, env=env,
                       timeout=timeout, cwd=K.VERIF)
    return p.returncode, p.stdout, p.stderr


def evidence_digest(prop):
    with open(os.path.join(K.VERIF, "evidence", f"{prop}.json")) as f:
        return json.load(f)["coverage"].get("batch_digest")


def determinism(props):
    bad = 0
    ev_backup = {}
    for prop in props:
        path = os.path.join(K.VERIF, "evidence", f"{prop}.json")
        ev_backup[prop] = open(path).read() if os.path.exists(path) else None
    try:
        for prop in props:
            digs = []
            for workers, hs, seed in (("16", "0", "7"), ("3", "12345", "7"), ("1" if prop == "C19" else "5", "777", "7"),
                                      ("16", "0", "8")):
                env = dict(SMALL[prop], VERIF_WORKERS=workers, PYTHONHASHSEED=hs, VERIF_SEED=seed)
                if prop == "C14":
                    env["C14_RUNS"] = "1500"
                rc, out, err = run_check(prop, env)
                if rc != 0:
                    print(f"determinism {prop}: check exited {rc} (workers={workers} hashseed={hs})\n{out[-1500:]}\n{err[-1500:]}")
                    bad += 1
                    continue
                digs.append((workers, hs, seed, evidence_digest(prop)))
            same = {d[3] for d in digs if d[2] == "7"}
            other = {d[3] for d in digs if d[2] == "8"}
            ok = len(same) == 1 and same != other
            print(f"determinism {prop}: {'OK' if ok else 'DIVERGED'} " + " ".join(f"[w={w} hs={h} seed={s}: {d}]" for w, h, s, d in digs))
            bad += 0 if ok else 1
    finally:
        for prop, txt in ev_backup.items():
            path = os.path.join(K.VERIF, "evidence", f"{prop}.json")
            if txt is not None:
                open(path, "w").write(txt)
    return K.EXIT_OK if bad == 0 else K.EXIT_HARNESS


def make_copy(dst):
    shutil.copytree(K.REPO, dst, ignore=shutil.ignore_patterns(".git", "__pycache__", "*.pyc", "docs", "notebooks"))


def apply_mutant(copy, m):
    for ed in m["edits"]:
        p = os.path.join(copy, ed["file"])
        s = open(p).read()
        if s.count(ed["old"]) != 1:
            raise K.HarnessError(f"mutant {m['id']}: anchor not found exactly once in {ed['file']} ({s.count(ed['old'])})")
        open(p, "w").write(s.replace(ed["old"], ed["new"]))


def mutants(props, with_tests=False, only=None, save_corpus=False):
    ev_backup = {}
    for prop in ("C14", "C17", "C19"):
        path = os.path.join(K.VERIF, "evidence", f"{prop}.json")
        ev_backup[prop] = open(path).read() if os.path.exists(path) else None
    rep_before = set(os.listdir(os.path.join(K.VERIF, "replays")))
    results = []
    try:
        for m in MUTANTS:
            if m["prop"] not in props or (only and m["id"] not in only):
                continue
            copy = os.path.join(K.scratch_root(), "mutant-" + m["id"])
            shutil.rmtree(copy, ignore_errors=True)
            make_copy(copy)
            try:
                apply_mutant(copy, m)
                tests_ok = None
                if with_tests:
                    t = subprocess.run([sys.executable, "-m", "pytest", "-q", "-x", "-p", "no:cacheprovider", "--timeout=900",
                                        "--deselect", "tests/console/commands/test_example.py::test_command_example",
                                        "--deselect", "tests/test_network.py::test_export_empty_network",
                                        "--deselect", "tests/test_network.py::test_export_network", "tests"],
                                       cwd=copy, env=dict(os.environ, PYTHONPATH=copy), capture_output=True, text=True, timeout=1800)
                    tests_ok = t.returncode == 0
                env = dict(SMALL[m["prop"]], NAUNET_REPO=copy)
                if save_corpus:
                    env["VERIF_NO_CORPUS"] = "1"
                env.update(m.get("env", {}))
                rc, out, err = run_check(m["prop"], env)
                viol = [ln for ln in out.splitlines() if ln.startswith("VIOLATION")]
                clauses = [ln for ln in out.splitlines() if ln.startswith("violated clause")]
                caught = rc == 1 and bool(viol)
                if caught and save_corpus and "revert" in m["id"]:
                    # the minimised witness of a repaired defect becomes a regression scenario
                    paths = [ln.split("replay=", 1)[1].strip() for ln in viol]
                    paths = [x for x in paths if os.sep + "corpus" + os.sep not in x and os.path.exists(x)][:1]
                    cdir = os.path.join(K.VERIF, "corpus", m["prop"])
                    os.makedirs(cdir, exist_ok=True)
                    for k, x in enumerate(paths):
                        doc = json.load(open(x))
                        doc["corpus_origin"] = f"mutant {m['id']}: {m['why']}"
                        json.dump(doc, open(os.path.join(cdir, f"fixed-{m['id']}-{k}.json"), "w"), indent=1, sort_keys=True)
                results.append((m["id"], m["prop"], caught, rc, tests_ok, clauses[:2]))
                print(f"mutant {m['id']:<40} {m['prop']} {'CAUGHT' if caught else 'MISSED'} rc={rc}"
                      + (f" tests={'pass' if tests_ok else 'FAIL'}" if tests_ok is not None else "")
                      + (f" | {clauses[0][:150]}" if clauses else ""), flush=True)
                if not caught and rc not in (0, 1):
                    print(err[-1500:])
            finally:
                shutil.rmtree(copy, ignore_errors=True)
    finally:
        for prop, txt in ev_backup.items():
            path = os.path.join(K.VERIF, "evidence", f"{prop}.json")
            if txt is not None:
                open(path, "w").write(txt)
        for f in set(os.listdir(os.path.join(K.VERIF, "replays"))) - rep_before:
            os.remove(os.path.join(K.VERIF, "replays", f))
    missed = [r for r in results if not r[2]]
    print(f"mutants: {len(results) - len(missed)}/{len(results)} caught" + (f"; missed: {[r[0] for r in missed]}" if missed else ""))
    return K.EXIT_OK if not missed else K.EXIT_HARNESS


KNOWN_CASES = [
    # (property, mutant that re-opens a repaired defect, open entry describing it, a second unrelated mutant)
    ("C19", "c19-revert-odeint-pywrap",
     {"id": "selftest-c19", "property": "C19", "status": "open", "what": "odeint PyWrapSolve returns normally although Solve failed",
      "match": {"variant": "odeint", "clause": "budget-exceeded-reported-as-success", "mode": 1}},
     "c19-no-remaining-time", {"id": "selftest-c19b", "property": "C19", "status": "open", "what": "same, other clause",
                               "match": {"variant": "odeint", "clause": "success-without-exact-interval", "mode": 1}}),
    ("C14", "c14-revert-extend-option",
     {"id": "selftest-c14", "property": "C14", "status": "open", "what": "naunet extend always raises CleoValueError",
      "match": {"kind": "extend", "clause": "extend-raised"}},
     "c14-remove-instance-first-only", None),
    ("C17", "c17-revert-cli-restore",
     {"id": "selftest-c17", "property": "C17", "status": "open", "what": "naunet render leaves its tables installed",
      "channel": "cli-tables"},
     "c17-krome-vars-not-reset", None),
]


def known(props):
    """An open known finding is printed as KNOWN-FINDING and does not fail the check; a different
    violation of the same property (a second, unrelated mutant) is still reported."""
    ev_backup = {}
    for prop in ("C14", "C17", "C19"):
        path = os.path.join(K.VERIF, "evidence", f"{prop}.json")
        ev_backup[prop] = open(path).read() if os.path.exists(path) else None
    rep_before = set(os.listdir(os.path.join(K.VERIF, "replays")))
    bad = 0
    byid = {m["id"]: m for m in MUTANTS}
    try:
        for prop, mid, entry, other, entry2 in KNOWN_CASES:
            if prop not in props:
                continue
            kf = os.path.join(K.scratch_root(), f"known-{prop}.json")
            json.dump({"findings": [e for e in (entry, entry2) if e]}, open(kf, "w"))
            for stage, muts, want_rc, want_known, want_viol in (("finding only", [mid], 0, True, False),
                                                                  ("finding + other change", [mid, other], 1, True, True)):
                copy = os.path.join(K.scratch_root(), f"known-copy-{prop}")
                shutil.rmtree(copy, ignore_errors=True)
                make_copy(copy)
                try:
                    for m in muts:
                        apply_mutant(copy, byid[m])
                    env = dict(SMALL[prop], NAUNET_REPO=copy, VERIF_KNOWN_FINDINGS_FILE=kf)
                    rc, out, err = run_check(prop, env)
                    has_known = any(ln.startswith("KNOWN-FINDING: property=" + prop) for ln in out.splitlines())
                    has_viol = any(ln.startswith("VIOLATION property=" + prop) for ln in out.splitlines())
                    ok = rc == want_rc and has_known == want_known and has_viol == want_viol
                    print(f"known {prop} [{stage}]: {'OK' if ok else 'WRONG'} rc={rc} KNOWN-FINDING={has_known} VIOLATION={has_viol}", flush=True)
                    if not ok:
                        bad += 1
                        print(out[-1500:], err[-800:])
                finally:
                    shutil.rmtree(copy, ignore_errors=True)
    finally:
        for prop, txt in ev_backup.items():
            path = os.path.join(K.VERIF, "evidence", f"{prop}.json")
            if txt is not None:
                open(path, "w").write(txt)
        for f in set(os.listdir(os.path.join(K.VERIF, "replays"))) - rep_before:
            os.remove(os.path.join(K.VERIF, "replays", f))
    return K.EXIT_OK if bad == 0 else K.EXIT_HARNESS


def main(argv):
    if not argv:
        print(__doc__)
        return K.EXIT_HARNESS
    props = [a for a in argv[1:] if a in ("C14", "C17", "C19")] or ["C14", "C17", "C19"]
    if argv[0] == "determinism":
        return determinism(props)
    if argv[0] == "known":
        return known(props)
    if argv[0] == "mutants":
        only = None
        if "--only" in argv:
            only = argv[argv.index("--only") + 1].split(",")
        return mutants(props, with_tests="--with-tests" in argv, only=only, save_corpus="--save-corpus" in argv)
    print(__doc__)
    return K.EXIT_HARNESS
