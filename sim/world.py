"""World description for pysim: network configurations, species alphabets with
their spellings, abstract reactions and their encoders for the text formats.
No naunet import in here - identities are the simulator's own.
"""
from __future__ import annotations

# abstract species keys: gas neutrals/ions, ices (i*), grains (GR*)
GAS = ["H", "H2", "C", "O", "CO", "H2O", "E", "H+", "C+", "HCO+", "He", "He+", "OH", "O2"]
ICE = ["iH", "iCO", "iH2O"]
GRAINS = ["GR0", "GR-"]

BASE_SPELL = {
    "H": "H", "H2": "H2", "C": "C", "O": "O", "CO": "CO", "H2O": "H2O", "E": "e-", "H+": "H+", "C+": "C+",
    "HCO+": "HCO+", "He": "He", "He+": "He+", "OH": "OH", "O2": "O2",
    "iH": "#H", "iCO": "#CO", "iH2O": "#H2O", "GR0": "GRAIN0", "GR-": "GRAIN-",
}

CONFIGS = {
    "mixed": {
        "elements": ["e", "H", "D", "He", "C", "N", "O"],
        "pseudo": ["CR", "CRP", "Photon", "PHOTON", "CRPHOT"],
        "kwargs": {},
        "spell": dict(BASE_SPELL),
        "alt": {"E": ["e"]},
        "alphabet": GAS + ICE + GRAINS,
        "pseudo_names": {"CR": "CR", "PH": "Photon", "umistCR": "CRP", "umistPH": "PHOTON"},
        "string_ice": True,
        "explicit": True,
    },
    "upper": {
        "elements": ["E", "H", "D", "HE", "C", "N", "O"],
        "pseudo": ["CR", "CRP", "PHOTON", "CRPHOT"],
        "kwargs": {},
        "spell": dict(BASE_SPELL, **{"E": "E-", "He": "HE", "He+": "HE+"}),
        "alt": {"E": ["E"]},
        "alphabet": GAS + ICE,
        "pseudo_names": {"CR": "CR", "PH": "PHOTON", "umistCR": "CRP", "umistPH": "PHOTON"},
        "string_ice": True,
        "explicit": True,
    },
    "gprefix": {
        "elements": ["e", "H", "D", "He", "C", "N", "O"],
        "pseudo": ["CR", "CRP", "Photon", "PHOTON"],
        "kwargs": {"surface_prefix": "G"},
        "spell": dict(BASE_SPELL, **{"iH": "GH", "iCO": "GCO", "iH2O": "GH2O"}),
        "alt": {"E": ["e"]},
        "alphabet": GAS + ICE,
        "pseudo_names": {"CR": "CR", "PH": "Photon", "umistCR": "CRP", "umistPH": "PHOTON"},
        "string_ice": False,  # the text formats parse with the default '#' prefix
        "explicit": True,
    },
    "minimal": {
        "elements": ["H", "C", "O", "e"],
        "pseudo": ["CR"],
        "kwargs": {},
        "spell": {k: v for k, v in BASE_SPELL.items() if k not in ("He", "He+", "GR0", "GR-")},
        "alt": {"E": ["e"]},
        "alphabet": [s for s in GAS if s not in ("He", "He+")] + ICE,
        "pseudo_names": {"CR": "CR"},
        "string_ice": True,
        "explicit": True,
    },
    # ortho/para/meta pseudo-elements next to the elements O and P: species names that differ
    # only in letter case (pH2 / PH2, oH2 / OH2) are different species
    "orthopara": {
        "elements": ["e", "H", "He", "C", "N", "O", "P"],
        "pseudo": ["CR", "CRP", "Photon", "PHOTON", "CRPHOT", "o", "p", "m"],
        "kwargs": {},
        "spell": dict({k: v for k, v in BASE_SPELL.items() if k in ("H", "H2", "C", "O", "CO", "E", "H+", "C+", "OH", "He", "He+")},
                      **{"pH2": "pH2", "PH2": "PH2", "oH2": "oH2", "OH2": "OH2", "pH3+": "pH3+", "PH3+": "PH3+", "mH2": "mH2",
                         # phosphorus species whose names coincide with process codes / keywords of the text formats
                         "sPH": "PH", "sCP": "CP", "sPN": "PN"}),
        "alt": {"E": ["e"]},
        "alphabet": ["H", "H2", "C", "O", "CO", "E", "H+", "C+", "OH", "He", "He+", "pH2", "PH2", "oH2", "OH2", "pH3+", "PH3+", "mH2", "sPH", "sCP", "sPN"],
        "pseudo_names": {"CR": "CR", "PH": "Photon", "umistCR": "CRP", "umistPH": "PHOTON"},
        "string_ice": True,
        "explicit": True,
    },
    # relies on the ambient default lists: by design global, only ever run alone
    "ambient": {
        "elements": None,
        "pseudo": None,
        "kwargs": {},
        "spell": dict(BASE_SPELL),
        "alt": {"E": ["e", "E"]},
        "alphabet": GAS + ICE + GRAINS,
        "pseudo_names": {"CR": "CR", "PH": "Photon", "umistCR": "CRP", "umistPH": "PHOTON"},
        "string_ice": True,
        "explicit": False,
    },
}


def identity_map(cfgname):
    """spelling -> abstract key, for every spelling that may be observed."""
    cfg = CONFIGS[cfgname]
    m = {}
    for k, sp in cfg["spell"].items():
        m[sp] = k
    for k, alts in cfg["alt"].items():
        for a in alts:
            m[a] = k
    # ice species built by the user with the other prefix convention
    for k in ICE:
        base = BASE_SPELL[k][1:]
        m.setdefault("#" + base, k)
        m.setdefault("G" + base, k)
    return m


def charge_of(key):
    if key == "E" or key == "GR-":
        return -1
    return key.count("+")


def is_ice(key):
    return key.startswith("i")


def is_grain(key):
    return key.startswith("GR")


T_WINDOWS = [(-1.0, -1.0), (10.0, 41000.0), (10.0, 300.0), (300.0, 41000.0)]
RT_TWOBODY, RT_CR, RT_PHOTON, RT_FREEZE, RT_THERM, RT_UNKNOWN = 100, 101, 102, 200, 201, 999
RT_RECOMBINE, RT_ECAPTURE = 220, 221


def gen_pool(rng, cfgname, size, uid0=0, gas_only=False):
    """Abstract reactions over the configuration's alphabet. Each carries a unique
    uid; alpha = uid + 0.5 is the attribution tag."""
    cfg = CONFIGS[cfgname]
    alpha = [s for s in cfg["alphabet"] if s in cfg["spell"]]
    gas = [s for s in alpha if not is_ice(s) and not is_grain(s)]
    ice = [s for s in alpha if is_ice(s)]
    pool = []
    uid = uid0
    while len(pool) < size:
        r = rng.random()
        base = None
        if pool and r < 0.30:
            base = dict(rng.choice(pool))
            v = rng.random()
            if v < 0.12 and base["pseudo"] is None:
                # same species, other multiplicities: A + A -> B  vs  A -> B ; [A, A, B] vs [A, B, B]
                side = rng.choice(["R", "P"])
                lst = list(base[side])
                if len(lst) >= 3 and len(set(lst)) == 2:
                    a, b = sorted(set(lst))
                    lst = [a, a, b] if lst.count(b) == 2 else [a, b, b]
                elif len(lst) < 3:
                    lst = lst + [rng.choice(lst)]
                else:
                    lst = lst[:-1]
                base[side] = lst
            elif v < 0.45:
                pass  # exact duplicate up to the tag
            elif v < 0.65:
                base["R"] = list(reversed(base["R"]))
                base["P"] = list(reversed(base["P"]))
            elif v < 0.85:
                w = rng.choice(T_WINDOWS)
                base["tmin"], base["tmax"] = w
            else:
                base["rtype"] = rng.choice([RT_TWOBODY, RT_UNKNOWN]) if base["pseudo"] is None else base["rtype"]
        if base is None:
            kind = rng.random()
            grains_ok = not gas_only and "GR0" in alpha and "GR-" in alpha
            ions = [s for s in gas if charge_of(s) > 0 and s[:-1] in gas]
            if grains_ok and kind < 0.12:
                # electron capture by / cation recombination on grains: two charge states of one grain group
                if "E" in gas and (rng.random() < 0.5 or not ions):
                    R, P, pseudo, rtype = ["E", "GR0"], ["GR-"], None, RT_ECAPTURE
                elif ions:
                    ion = rng.choice(ions)
                    R, P, pseudo, rtype = [ion, "GR-"], [ion[:-1], "GR0"], None, RT_RECOMBINE
                else:
                    R, P, pseudo, rtype = ["GR-"], ["GR0"], None, RT_UNKNOWN
                w = rng.choice(T_WINDOWS)
                base = {"R": R, "P": P, "pseudo": pseudo, "rtype": rtype, "tmin": w[0], "tmax": w[1],
                        "beta": 0.0, "gamma": 0.0}
            elif ice and not gas_only and kind < 0.20:
                # gas and ice on the same side (a surface reaction with a gas-phase partner)
                i = rng.choice(ice)
                R, P, pseudo, rtype = [rng.choice(gas), i], [rng.choice(gas)], None, RT_UNKNOWN
                if rng.random() < 0.5:
                    R = list(reversed(R))
            elif kind < 0.60 or not ice or gas_only:
                nr = rng.choice([1, 2, 2, 2, 3])
                R = [rng.choice(gas) for _ in range(nr)]
                # (up to five products: the widest reaction the text formats can carry)
                P = [rng.choice(gas) for _ in range(rng.choice([1, 1, 1, 2, 2, 2, 3, 3, 4, 5]))]
                pseudo = None
                rtype = rng.choice([RT_TWOBODY, RT_TWOBODY, RT_TWOBODY, RT_UNKNOWN])
                if nr == 1 and rng.random() < 0.7:
                    if "PH" in cfg["pseudo_names"] and rng.random() < 0.5:
                        pseudo, rtype = "PH", RT_PHOTON
                    else:
                        pseudo, rtype = "CR", RT_CR
            elif kind < 0.80:
                g = rng.choice([s for s in gas if charge_of(s) == 0 and ("i" + s) in ice] or ["CO"])
                R, P, pseudo, rtype = [g], ["i" + g], None, RT_FREEZE
            else:
                i = rng.choice(ice)
                R, P, pseudo, rtype = [i], [i[1:]], None, RT_THERM
            if base is None:
                w = rng.choice(T_WINDOWS)
                base = {"R": R, "P": P, "pseudo": pseudo, "rtype": rtype, "tmin": w[0], "tmax": w[1],
                        "beta": rng.choice([0.0, -0.5, 0.5]), "gamma": rng.choice([0.0, 10.0, 1.7])}
        base = dict(base)
        base["uid"] = uid
        base["alpha"] = uid + 0.5
        pool.append(base)
        uid += 1
        if base["pseudo"] is None and len(pool) < size and uid % 2 == 0 and \
                any(is_ice(x) for x in base["R"] + base["P"]) and (len(base["R"]) > 1 or len(base["P"]) > 1):
            # an ice species next to another species on one side: such a reaction gets an exact twin
            # at once (the two are then added through different routes - text with '#', instance
            # with the other surface prefix - which changes the name order of the species)
            twin = dict(base, uid=uid, alpha=uid + 0.5)
            pool.append(twin)
            uid += 1
    return pool


def species_of(ar):
    return list(ar["R"]) + list(ar["P"])


def formats_for(cfgname, ar):
    """Text formats able to carry this abstract reaction under this configuration."""
    cfg = CONFIGS[cfgname]
    sp = species_of(ar)
    has_ice = any(is_ice(s) for s in sp)
    has_grain = any(is_grain(s) for s in sp)
    out = []
    if has_ice and not cfg["string_ice"]:
        return out
    out.append("naunet")
    plain = not has_ice and not has_grain
    if plain and ar["rtype"] in (RT_TWOBODY, RT_CR, RT_PHOTON) and ar["tmin"] == int(ar["tmin"]):
        if ar["rtype"] != RT_PHOTON or "PH" in cfg["pseudo_names"]:
            out.append("kida")
        nr = len(ar["R"]) + (1 if ar["pseudo"] else 0)
        if nr <= 2 and len(ar["P"]) <= 4 and "umistCR" in cfg["pseudo_names"] and \
                (ar["rtype"] != RT_PHOTON or "umistPH" in cfg["pseudo_names"]):
            out.append("umist")
    if plain and ar["rtype"] == RT_UNKNOWN and ar["pseudo"] is None and len(ar["P"]) <= 4:
        out.append("krome")
    # UCLCHEM: reactant, keyword-or-reactant, reactant, four products; ice species are written with '#'
    if not has_grain and len(ar["P"]) <= 4 and cfg["string_ice"]:
        if ar["rtype"] == RT_TWOBODY and ar["pseudo"] is None and len(ar["R"]) <= 3:
            out.append("uclchem")
        elif ar["rtype"] in (RT_CR, RT_PHOTON) and ar["pseudo"] and len(ar["R"]) == 1:
            out.append("uclchem")
        elif ar["rtype"] in (RT_FREEZE, RT_THERM) and len(ar["R"]) == 1:
            out.append("uclchem")
    return out


def spell_list(cfgname, keys, krome=False, variant=0):
    cfg = CONFIGS[cfgname]
    out = []
    for k in keys:
        if krome and k == "E":
            alts = cfg["alt"]["E"]
            out.append(alts[variant % len(alts)])
        else:
            out.append(cfg["spell"][k])
    return out


def encode(cfgname, ar, fmt, idx):
    """One text line (without newline) for the reaction in the given format."""
    cfg = CONFIGS[cfgname]
    R = spell_list(cfgname, ar["R"], krome=(fmt == "krome"), variant=ar.get("uid", 0))
    P = spell_list(cfgname, ar["P"], krome=(fmt == "krome"), variant=ar.get("uid", 0))
    a, b, c = ar["alpha"], ar["beta"], ar["gamma"]
    if fmt == "naunet":
        if ar["pseudo"]:
            R = R + [cfg["pseudo_names"][ar["pseudo"]]]
        R = (R + [""] * 3)[:3]
        P = (P + [""] * 5)[:5]
        return ",".join([f"{idx:<5}"] + [f"{x:>12}" for x in R + P] +
                        [repr(float(a)), repr(float(b)), repr(float(c)),
                         f"{ar['tmin']:9.2f}", f"{ar['tmax']:9.2f}", f"{ar['rtype']:>4}", f"{'sim':>8}"])
    if fmt == "kida":
        if ar["pseudo"]:
            R = R + [cfg["pseudo_names"][ar["pseudo"]]]
        R = (R + [""] * 3)[:3]
        P = (P + [""] * 5)[:5]
        formula = {RT_CR: 1, RT_PHOTON: 2, RT_TWOBODY: 3}[ar["rtype"]]
        head = "".join(f"{x:<11}" for x in R) + " " + "".join(f"{x:<11}" for x in P) + " "
        assert len(head) == 34 + 56, len(head)
        tail = " ".join([repr(float(a)), repr(float(b)), repr(float(c)), "0.0", "0.0", "logn", "1",
                         f"{int(ar['tmin'])}", f"{int(ar['tmax'])}", f"{formula}", f"{idx}", "1", "1"])
        return head + tail
    if fmt == "umist":
        code = {RT_TWOBODY: "NN", RT_CR: "CP", RT_PHOTON: "PH"}[ar["rtype"]]
        if ar["pseudo"] == "CR":
            R = R + [cfg["pseudo_names"]["umistCR"]]
        elif ar["pseudo"] == "PH":
            R = R + [cfg["pseudo_names"]["umistPH"]]
        R = (R + [""] * 2)[:2]
        P = (P + [""] * 4)[:4]
        return ":".join([f"{idx}", code] + R + P + ["1", repr(float(a)), repr(float(b)), repr(float(c)),
                                                    repr(float(ar["tmin"])), repr(float(ar["tmax"])), "ST", "A", "ref"])
    if fmt == "krome":
        R = (R + [""] * 3)[:3]
        P = (P + [""] * 4)[:4]
        tmin = "NONE" if ar["tmin"] < 0 else repr(float(ar["tmin"]))
        tmax = "NONE" if ar["tmax"] < 0 else repr(float(ar["tmax"]))
        return ",".join([f"{idx}"] + R + P + [tmin, tmax, krome_rate(ar)])
    if fmt == "uclchem":
        kw = {RT_CR: "CRP", RT_PHOTON: "PHOTON", RT_FREEZE: "FREEZE", RT_THERM: "THERM"}.get(ar["rtype"])
        if kw:
            Rf = [R[0], kw, "NAN"]
        else:
            Rf = (R + ["NAN"] * 3)[:3]
        Pf = (P + ["NAN"] * 4)[:4]
        return ",".join(Rf + Pf + [repr(float(a)), repr(float(b)), repr(float(c)), repr(float(ar["tmin"])), repr(float(ar["tmax"]))])
    raise ValueError(fmt)


def krome_rate(ar):
    return f"{ar['uid']}.5d0*(T32)**(-0.5)"


def expected_content(ar, fmt):
    """What the parsed reaction must look like: (R keys in order, P keys, tmin, tmax, rtype, tag)."""
    tmin, tmax, rtype = float(ar["tmin"]), float(ar["tmax"]), ar["rtype"]
    tag = ("alpha", float(ar["alpha"]))
    if fmt == "krome":
        tag = ("rate", krome_rate(ar))
    if fmt == "uclchem" and rtype == RT_FREEZE:
        tmin, tmax = 0.0, 30.0  # the UCLCHEM reader switches freeze-out off above 30 K
    return (tuple(sorted(ar["R"])), tuple(sorted(ar["P"])), tmin, tmax, rtype, tag)
