#!/venv/bin/python
"""Confirm a sub-agent's seeded change and run the registered check against it.

usage: eval_seed.py <worktree> <property> <seed-id> <demo-file> [--runs-env K=V ...]
Steps (all verified here, not taken from the agent's report):
  1. in the scratch worktree: demo fails with the change, passes without (patch reversed), suite = 82 passed + the 3 known failures
  2. apply patch.diff to /repo, run ./check <property> quick, undo with git checkout
  3. store patch, demo and meta.json under /verif/seeded/<seed-id>/
"""
import json
import os
import shutil
import subprocess
import sys

wt, prop, sid, demo = sys.argv[1:5]
extra_env = dict(a.split("=", 1) for a in sys.argv[5:] if "=" in a)
NO_CHECK = "--no-check" in sys.argv  # confirm and store only; the check is run later by tools/recheck_seeds.py
PY = "/venv/bin/python"
KNOWN_FAIL = {"tests/console/commands/test_example.py::test_command_example",
              "tests/test_network.py::test_export_empty_network", "tests/test_network.py::test_export_network"}


def sh(cmd, cwd=None, env=None, timeout=3600):
    p = subprocess.run(cmd, shell=True, cwd=cwd, env=env, capture_output=True, text=True, timeout=timeout)
    return p.returncode, p.stdout + p.stderr


env = dict(os.environ, PYTHONPATH=wt)
meta = {"id": sid, "property": prop, "worktree": wt, "ran": []}
patch = os.path.join(wt, "patch.diff")
rc, out = sh(f"git diff -- naunet > /tmp/seed-{sid}.diff; cmp /tmp/seed-{sid}.diff patch.diff", cwd=wt)
meta["patch_matches_worktree"] = rc == 0

# 1a. demo with the change
rc_with, out_with = sh(f"{PY} {demo}", cwd=wt, env=env)
# 1b. demo without (reverse patch), then re-apply
rc, o = sh("git apply -R patch.diff", cwd=wt)
assert rc == 0, o
try:
    rc_without, out_without = sh(f"{PY} {demo}", cwd=wt, env=env)
finally:
    rc, o = sh("git apply patch.diff", cwd=wt)
    assert rc == 0, o
meta["demo_with_change_exit"] = rc_with
meta["demo_without_change_exit"] = rc_without
meta["ran"].append(f"PYTHONPATH={wt} {PY} {demo}  (with change: exit {rc_with}; patch reversed: exit {rc_without})")
# 1c. suite with the change
rc, out = sh(f"{PY} -m pytest -q -p no:cacheprovider --timeout=900 tests 2>&1 | tail -8", cwd=wt, env=env)
failed = {ln.split()[1] for ln in out.splitlines() if ln.startswith("FAILED")}
summary = [ln for ln in out.splitlines() if " passed" in ln]
meta["suite_with_change"] = summary[-1] if summary else out[-300:]
meta["suite_ok"] = failed == KNOWN_FAIL and "82 passed" in (summary[-1] if summary else "")
meta["ran"].append(f"PYTHONPATH={wt} {PY} -m pytest -q -p no:cacheprovider --timeout=900 tests -> {meta['suite_with_change']}")

if NO_CHECK:
    dst = os.path.join("/verif/seeded", sid)
    os.makedirs(dst, exist_ok=True)
    shutil.copy(patch, os.path.join(dst, "patch.diff"))
    shutil.copy(os.path.join(wt, demo), os.path.join(dst, os.path.basename(demo)))
    if os.path.exists(os.path.join(wt, "NOTES.md")):
        shutil.copy(os.path.join(wt, "NOTES.md"), os.path.join(dst, "NOTES.md"))
    meta["check_cmd"] = f"./check {prop} quick"
    meta["check_caught"] = None
    json.dump(meta, open(os.path.join(dst, "meta.json"), "w"), indent=1)
    print(json.dumps(meta, indent=1))
    sys.exit(0)

# 2. the registered check against /repo with the change applied
rc, o = sh("git status --porcelain", cwd="/repo")
assert o.strip() == "", "/repo not clean: " + o
rc, o = sh(f"git apply {patch}", cwd="/repo")
assert rc == 0, o
try:
    cenv = dict(os.environ)
    cenv.update(extra_env)
    rc_check, out_check = sh(f"./check {prop} quick", cwd="/verif", env=cenv)
finally:
    sh("git checkout -- .", cwd="/repo")
rc, o = sh("git status --porcelain", cwd="/repo")
assert o.strip() == "", "/repo not restored: " + o
viol = [ln for ln in out_check.splitlines() if ln.startswith("VIOLATION") or ln.startswith("violated clause")]
meta["check_cmd"] = f"./check {prop} quick" + ("".join(f" [{k}={v}]" for k, v in extra_env.items()))
meta["check_exit"] = rc_check
meta["check_caught"] = rc_check == 1 and any(v.startswith("VIOLATION") for v in viol)
meta["check_output"] = [v[:600] for v in viol[:6]] or out_check[-800:]
# evidence was rewritten by that run against a modified tree: restore the committed one
sh(f"git checkout -- evidence/{prop}.json", cwd="/verif")
for f in os.listdir("/verif/replays"):
    if f.endswith(".json"):
        os.remove(os.path.join("/verif/replays", f))

# 3. store
dst = os.path.join("/verif/seeded", sid)
os.makedirs(dst, exist_ok=True)
shutil.copy(patch, os.path.join(dst, "patch.diff"))
shutil.copy(os.path.join(wt, demo), os.path.join(dst, os.path.basename(demo)))
if os.path.exists(os.path.join(wt, "NOTES.md")):
    shutil.copy(os.path.join(wt, "NOTES.md"), os.path.join(dst, "NOTES.md"))
json.dump(meta, open(os.path.join(dst, "meta.json"), "w"), indent=1)
print(json.dumps(meta, indent=1))
