#!/venv/bin/python
"""Regression over all seeded changes: each seeded/<id>/patch.diff is applied to a scratch copy of
/repo (outside /repo and /verif), the property's quick check runs against the copy
(NAUNET_REPO=<copy>), and the result is compared with `check_caught` recorded in meta.json.
Evidence files and replays written by these runs are restored/removed afterwards.
usage: tools/recheck_seeds.py [id-substring ...]"""
import json
import os
import shutil
import subprocess
import sys
import tempfile

VERIF = os.path.dirname(os.path.dirname(os.path.abspath(__file__)))
save_corpus = "--save-corpus" in sys.argv
sel = [a for a in sys.argv[1:] if not a.startswith("--")]
base = tempfile.mkdtemp(prefix="naunet-seedcheck-", dir="/dev/shm" if os.path.isdir("/dev/shm") else None)
ev = {p: open(os.path.join(VERIF, "evidence", f"{p}.json")).read() for p in ("C14", "C17", "C19")}
before = set(os.listdir(os.path.join(VERIF, "replays")))
bad = 0
try:
    for sid in sorted(os.listdir(os.path.join(VERIF, "seeded"))):
        if sel and not any(x in sid for x in sel):
            continue
        d = os.path.join(VERIF, "seeded", sid)
        meta = json.load(open(os.path.join(d, "meta.json")))
        copy = os.path.join(base, sid)
        shutil.copytree("/repo", copy, ignore=shutil.ignore_patterns(".git", "__pycache__", "docs", "notebooks"))
        r = subprocess.run(["patch", "-p1", "-s", "-i", os.path.join(d, "patch.diff")], cwd=copy, capture_output=True, text=True)
        if r.returncode != 0:
            print(f"{sid}: PATCH DOES NOT APPLY ({r.stdout[-200:]})")
            bad += 1
            continue
        p = subprocess.run([os.path.join(VERIF, "check"), meta["property"], "quick"], cwd=VERIF, capture_output=True, text=True,
                           env=dict(os.environ, NAUNET_REPO=copy, **({"VERIF_NO_CORPUS": "1"} if save_corpus else {})), timeout=3000)
        caught = p.returncode == 1 and "VIOLATION property=" + meta["property"] in p.stdout
        clause = next((ln for ln in p.stdout.splitlines() if ln.startswith("violated clause")), "")[:110]
        print(f"{sid:<48} {meta['property']} {'CAUGHT' if caught else 'MISSED rc=%d' % p.returncode} {clause}", flush=True)
        bad += 0 if caught else 1
        if caught and save_corpus:
            # keep the first two minimised replay files as regression scenarios of the corpus
            paths = [ln.split("replay=", 1)[1].strip() for ln in p.stdout.splitlines() if ln.startswith("VIOLATION property=")]
            paths = [x for x in paths if os.path.join("corpus", "") not in x and os.path.exists(x)][:2]
            cdir = os.path.join(VERIF, "corpus", meta["property"])
            os.makedirs(cdir, exist_ok=True)
            for k, x in enumerate(paths):
                doc = json.load(open(x))
                doc["corpus_origin"] = f"seeded/{sid}"
                json.dump(doc, open(os.path.join(cdir, f"{sid}-{k}.json"), "w"), indent=1, sort_keys=True)
        shutil.rmtree(copy, ignore_errors=True)
finally:
    shutil.rmtree(base, ignore_errors=True)
    for p, txt in ev.items():
        open(os.path.join(VERIF, "evidence", f"{p}.json"), "w").write(txt)
    for f in set(os.listdir(os.path.join(VERIF, "replays"))) - before:
        os.remove(os.path.join(VERIF, "replays", f))
print("all seeded changes caught" if bad == 0 else f"{bad} seeded change(s) not caught")
sys.exit(0 if bad == 0 else 1)
